#!/venv/bin/python
"""
Sensitivity harness: apply each catalogued mutant (or a patch file) to a
scratch copy of /repo's eliot package, run the named checks against it, and
report which ones raise a VIOLATION.  Scratch copies live under /tmp and are
removed immediately.

    tools/mutants.py C01 [C02 ...]          run the catalogue entries of those properties
    tools/mutants.py --name NAME            run one catalogue entry
    tools/mutants.py --patch FILE C01 C02   run checks against a git patch
    tools/mutants.py --all

Catalogue: /verif/mutants/catalog.json, entries
  {"name", "file", "old", "new", "props": ["C01", ...], "note"}
"""

import argparse
import json
import os
import shutil
import subprocess
import sys
import tempfile
import time

HERE = os.path.dirname(os.path.dirname(os.path.abspath(__file__)))
REPO = "/repo"


def scratch_copy():
    d = tempfile.mkdtemp(prefix="mut-", dir="/tmp")
    shutil.copytree(os.path.join(REPO, "eliot"), os.path.join(d, "eliot"), ignore=shutil.ignore_patterns("__pycache__"))
    return d


def run_check(prop, tree, tier="quick", seed="1", scale=None, timeout=1200):
    env = dict(os.environ, ELIOT_VERIF_REPO=tree, VERIF_SEED=str(seed), PYTHONHASHSEED="0")
    cmd = ["/venv/bin/python", os.path.join(HERE, "run.py"), prop, "--tier", tier]
    if scale:
        cmd += ["--scale", str(scale)]
    t0 = time.time()
    try:
        p = subprocess.run(cmd, env=env, cwd=HERE, capture_output=True, text=True, timeout=timeout)
        out, code = p.stdout + p.stderr, p.returncode
    except subprocess.TimeoutExpired as e:
        out, code = "TIMEOUT", 3
    detected = code == 1 and "VIOLATION property=%s" % prop in out
    first = ""
    for line in out.splitlines():
        if line.startswith("violation in facet"):
            first = line[:300]
            break
    return detected, code, time.time() - t0, first, out


def apply_entry(entry, tree):
    path = os.path.join(tree, entry["file"])
    with open(path) as f:
        s = f.read()
    if s.count(entry["old"]) != 1:
        raise SystemExit("mutant %s: 'old' text occurs %d times in %s" % (entry["name"], s.count(entry["old"]), entry["file"]))
    with open(path, "w") as f:
        f.write(s.replace(entry["old"], entry["new"]))
    # the mutant must at least import
    p = subprocess.run(["/venv/bin/python", "-c", "import eliot, eliot.parse, eliot.testing, eliot.prettyprint, eliot.filter"], cwd=tree, capture_output=True, text=True)
    if p.returncode != 0:
        raise SystemExit("mutant %s does not import: %s" % (entry["name"], p.stderr[-500:]))


def main():
    ap = argparse.ArgumentParser()
    ap.add_argument("props", nargs="*")
    ap.add_argument("--name")
    ap.add_argument("--patch")
    ap.add_argument("--all", action="store_true")
    ap.add_argument("--tier", default="quick")
    ap.add_argument("--seed", default="1")
    ap.add_argument("--scale")
    ap.add_argument("--verbose", action="store_true")
    args = ap.parse_args()
    results = []
    if args.patch:
        tree = scratch_copy()
        try:
            p = subprocess.run(["patch", "-p1", "-s", "-d", tree, "-i", os.path.abspath(args.patch)], capture_output=True, text=True)
            if p.returncode != 0:
                raise SystemExit("patch failed: " + p.stdout + p.stderr)
            for prop in args.props:
                d, code, wall, first, out = run_check(prop, tree, args.tier, args.seed, args.scale)
                print("%-40s %s %-9s exit=%d %.0fs %s" % (os.path.basename(args.patch), prop, "DETECTED" if d else "missed", code, wall, first))
                if args.verbose or code not in (0, 1):
                    print(out[-3000:])
        finally:
            shutil.rmtree(tree, ignore_errors=True)
        return
    with open(os.path.join(HERE, "mutants", "catalog.json")) as f:
        catalog = json.load(f)
    for entry in catalog:
        if args.name and entry["name"] != args.name:
            continue
        props = [p for p in entry["props"] if args.all or args.name or p in args.props]
        if not props:
            continue
        tree = scratch_copy()
        try:
            apply_entry(entry, tree)
            for prop in props:
                d, code, wall, first, out = run_check(prop, tree, args.tier, args.seed, args.scale)
                print("%-44s %s %-9s exit=%d %.0fs %s" % (entry["name"], prop, "DETECTED" if d else "missed", code, wall, first[:160]))
                sys.stdout.flush()
                if args.verbose or code not in (0, 1):
                    print(out[-3000:])
                results.append((entry["name"], prop, d))
        finally:
            shutil.rmtree(tree, ignore_errors=True)
    missed = [r for r in results if not r[2]]
    print("%d runs, %d detected, %d missed" % (len(results), len(results) - len(missed), len(missed)))


if __name__ == "__main__":
    main()
