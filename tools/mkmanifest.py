#!/venv/bin/python
"""Regenerate /verif/MANIFEST.json from the table below and validate it."""

import json
import os
import sys

HERE = os.path.dirname(os.path.dirname(os.path.abspath(__file__)))

# property -> (category, technique, level text, level note, design ref)
CHECKS = {
    "C10": (
        "exploration",
        "property-based testing (Hypothesis): generated messages x file flavours; round-trip against an independent normal form, write/flush call-log oracle, binary/text differential",
        "Generated-input search: every generated message (JSON-native corners, documented rich types, custom json_default) is written through FileDestination to six file flavours behind a recording proxy; the exact write/flush sequence, line validity, decoded content and cross-mode equality are checked against an independent model. Holds on everything generated, not a proof.",
        "Trusts CPython json.loads as reader and the harness's normal-form function; NumPy/Pandas/Polars not installable here; two third-party encoder defects are open known findings (F8, F9).",
        "DESIGN.md section 3 C10",
    ),
}

NOT_YET = "check not built yet in this round; see DESIGN.md for the planned generator and oracle"


def main():
    props = [json.loads(l)["id"] for l in open(os.path.join(HERE, "properties.jsonl"))]
    checks = []
    for pid in props:
        if pid not in CHECKS:
            continue
        cat, tech, text, note, ref = CHECKS[pid]
        checks.append(
            {
                "property_id": pid,
                "quick_cmd": "PYTHONHASHSEED=0 /venv/bin/python run.py %s --tier quick" % pid,
                "thorough_cmd": "PYTHONHASHSEED=0 /venv/bin/python run.py %s --tier thorough" % pid,
                "evidence_file": "/verif/evidence/%s.json" % pid,
                "replay_cmd_template": "PYTHONHASHSEED=0 /venv/bin/python run.py %s --replay {path}" % pid,
                "engine": "pbt",
                "level_claimed": {"category": cat, "text": text, "design_ref": ref},
                "level_note": note,
                "technique": tech,
            }
        )
    manifest = {
        "version": 1,
        "setup_cmd": "/venv/bin/pip install --no-index --find-links /opt/veriftools/wheels --target /verif/.deps atheris >/dev/null 2>&1 || true",
        "hooks": {
            "guard": "ELIOT_VERIF",
            "enable": "no hooks are needed: checks observe eliot through destinations, file objects, current_action(), return values and sys.settrace; ELIOT_VERIF is reserved and unused",
            "baseline_off_cmd": "cd /repo && /venv/bin/python -m pytest -ra -q -p no:cacheprovider --timeout=900 --continue-on-collection-errors",
            "source_commits": [],
            "add_only": True,
        },
        "engines": [
            {
                "name": "pbt",
                "path": "/verif/run.py",
                "serves_properties": [c["property_id"] for c in checks],
                "kind_free_text": "Hypothesis property-based testing over pure-data cases (programs, histories, schedules, fault masks, crash points), sharded over processes; shrunk failures become replay files",
            }
        ],
        "checks": checks,
        "notes": "All checks test the working tree at /repo (ELIOT_VERIF_REPO overrides for mutant validation). Seeds come from VERIF_SEED. Exit 2 = harness error, never a violation.",
        "not_applicable": [{"property_id": p, "reason": NOT_YET} for p in props if p not in CHECKS],
    }
    path = os.path.join(HERE, "MANIFEST.json")
    with open(path, "w") as f:
        json.dump(manifest, f, indent=1)
        f.write("\n")
    try:
        import jsonschema

        jsonschema.validate(manifest, json.load(open("/root/.vp/MANIFEST.schema.json")))
        print("MANIFEST.json valid; %d checks" % len(checks))
    except ImportError:
        print("MANIFEST.json written (jsonschema not available to validate)")


if __name__ == "__main__":
    main()
