#!/venv/bin/python
"""Regenerate /verif/MANIFEST.json from the table below and validate it."""

import json
import os
import sys

HERE = os.path.dirname(os.path.dirname(os.path.abspath(__file__)))

# property -> (category, technique, level text, level note, design ref)
CHECKS = {
    "C10": (
        "exploration",
        "property-based testing (Hypothesis): generated messages x file flavours; round-trip against an independent normal form, write/flush call-log oracle, binary/text differential",
        "Generated-input search: every generated message (JSON-native corners, documented rich types, custom json_default) is written through FileDestination to ten file flavours (real files, in-memory, codecs writers, spooled files; optionally one flush that would block; json_default extensions that do or do not fall back on eliot's) behind a recording proxy, and messages offered from inside a write()/flush() call (a signal handler that logs; a blocked call is recognised by a watchdog); the exact write/flush sequence, line validity, decoded content and cross-mode equality are checked against an independent model. Holds on everything generated, not a proof.",
        "Trusts CPython json.loads as reader and the harness's normal-form function; NumPy/Pandas/Polars not installable here; two third-party encoder defects are open known findings (F8, F9).",
        "DESIGN.md section 3 C10",
    ),
    "C01": (
        "exploration",
        "property-based testing (Hypothesis): generated logging programs interpreted against the real API; round-trip file -> json -> Parser compared with a reference model built from the AST, plus an independent reference tree (differential)",
        "Generated-program search: each program (all action/message kinds, exceptions, remote sub-tasks, generators) is executed through the public API into a real JSON log file; the parsed forest must equal the forest the interpreter derives from the AST semantics alone, and the parser must agree with an independent tree builder. Holds on everything generated.",
        "Trusts the harness interpreter's model of Python with/try semantics, CPython json, and pbt/reftree.py. Timestamps, uuids and traceback text are not compared.",
        "DESIGN.md section 3 C01",
    ),
    "C02": (
        "exploration",
        "property-based testing (Hypothesis): generated programs x destination fault masks; history invariants over the healthy observer's message list (uniqueness, contiguity 1..n, start/end placement, causal order); schedule exploration (source-line and bytecode granularity) of threads logging inside one shared action or with no current action, with freshness of the positions serialize_task_id hands out",
        "Generated programs, alone and next to destinations that raise on generated subsets of calls; the healthy observer's list must satisfy the stated uniqueness/contiguity/order invariants, with failure reports as ordinary tree members. Concurrent schedules are covered through the C05 runs. Holds on everything generated.",
        "Trusts pbt/reftree.py and pbt/invariants.py. One genuine defect (F7) is an open known finding, excluded by construction and reproduced on every run.",
        "DESIGN.md section 3 C02",
    ),
    "C03": (
        "exploration",
        "property-based testing (Hypothesis): generated exit outcomes x exception classes x extractor registrations; model equality of the observed forest, exactly-one start/end counting, identity of propagated exceptions",
        "Generated nested programs with every exit kind (return, 16 exception classes incl. BaseException-only and raising __str__, generator close/throw) and generated extractor registrations along the MROs (incl. raising extractors); the observed messages must equal the model and the propagated exception must be the raised object. Holds on everything generated.",
        "Trusts the interpreter's model (incl. its model of the extractor registry: nearest class in MRO, failure -> no fields + one traceback).",
        "DESIGN.md section 3 C03",
    ),
    "C04": (
        "exploration",
        "property-based testing (Hypothesis): generated nestings of scoping constructs incl. re-entered contexts, generators and a fault-injecting custom logger; identity oracle on current_action() at every boundary plus model equality of parent/child attribution",
        "Generated programs over with / context() / run() / re-entry of ancestors / start_task / generators, exits by return, exception or generator close, and (second facet) a custom logger that raises at generated points; current_action() must be the scope's action inside and the pre-entry object after leaving by any path. Holds on everything generated.",
        "Each case runs in its own contextvars context; non-LIFO exits and re-entering `with action:` itself are outside the quantifier.",
        "DESIGN.md section 3 C04",
    ),
    "C09": (
        "exploration",
        "exhaustive enumeration of all task shapes up to 6/7 messages x all permutations x all subsets, plus Hypothesis-generated larger tasks, orders, subsets and interleavings (synthetic writer and real eliot output); Task equality across orders, differential against an independent reference tree, exact completion accounting",
        "Bounded-exhaustive for small tasks (every shape, every arrival order, every subset; flagged exhaustive in the evidence) and generated search beyond that bound; oracles are order-independence (Task equality), agreement with an independent tree builder, completion reported exactly at the last message and once, subsets never complete.",
        "Trusts pbt/reftree.py. Ill-formed streams are outside the quantifier.",
        "DESIGN.md section 3 C09",
    ),
    "C07": (
        "fault_enumeration",
        "property-based testing / fault injection (Hypothesis): generated programs with hostile field values x fault masks over serializers, extractors and destinations; every public call wrapped, any exception other than the program's own is a violation (bucketed by call, type, innermost eliot frame)",
        "Generated programs whose field values come from a hostile table and whose serializers, extractors and destinations fail on generated subsets of calls; each public logging call must return normally or raise exactly the application's exception object. Holds on everything generated.",
        "Destinations/serializers/extractors raise Exception subclasses only (caller contract). A bounded stack budget makes runaway recursion surface as RecursionError quickly.",
        "DESIGN.md section 3 C07",
    ),
    "C08": (
        "fault_enumeration",
        "property-based testing / fault injection (Hypothesis): destination sets x failure masks x programs; per-destination offered sequences compared with a reference model of the statement (one report per failure, in registration order, none for reports); concurrent fan-out under harness-owned schedules (source-line and bytecode granularity)",
        "Generated sets of 1-4 recording destinations with generated failure masks and exception classes (incl. equal classes, late registration) under generated programs; every destination's offered sequence and every report is checked against a model of the property statement. Holds on everything generated.",
        "Destinations raise Exception subclasses only and do not mutate messages. Concurrent registration (add racing add/remove) is outside the quantifier.",
        "DESIGN.md section 3 C08",
    ),
    "C12": (
        "exploration",
        "stateful property-based testing (Hypothesis RuleBasedStateMachine + operation-list strategy) against a reference model of buffering/registration/global fields; harness-owned thread schedules at source-line and bytecode-instruction granularity (generated and enumerated) for the hand-over race",
        "Histories of log / add / remove / add_global_fields (incl. >1000 buffered) are executed against a fresh Destinations and a reference model, compared after every step (incl. equal-but-distinct destination objects on one sink); the hand-over from buffering is additionally run under generated and enumerated interleavings (source-line and bytecode-instruction granularity) of logging threads against the first add. Holds on everything explored.",
        "Under concurrency only loss/duplication is asserted. The scheduler assumes pausing at line events does not change the traced code's result.",
        "DESIGN.md section 3 C12",
    ),
    "C13": (
        "fault_enumeration",
        "property-based testing / fault injection (Hypothesis): typed emissions with counting non-idempotent serializers x fault masks (raising serializers, omitted fields); exactly-once, non-mutation and report-placement oracles; concurrent facets under harness-owned schedules (source-line and bytecode granularity) incl. one type first used by racing threads",
        "Generated scenarios of typed messages/actions (start, success, failure, stand-alone, direct Logger.write) with counting wrappers around non-idempotent serializers and generated fault masks; delivered values, call counts, caller data, and the number (exactly one each, also when several serializers of one message fail or a serializer raises eliot.ValidationError) and placement of traceback + serialization_failure reports are checked per emission. Holds on everything generated.",
        "Serializers are pure and raise Exception subclasses; exactly-once is asserted on the Logger -> destinations path only.",
        "DESIGN.md section 3 C13",
    ),
    "C16": (
        "exploration",
        "schedule exploration: harness-owned line-level scheduler (sys.settrace + cooperative locks) over eliot/_output.py with Hypothesis-generated plans and complete single-preemption enumeration; free-running threads as an extra stress facet; exact post-join oracles",
        "Real threads are driven through generated and enumerated interleavings at source-line granularity inside the output layer (MemoryLogger operations; FileDestination on a file whose write() is a yield point); pairing of messages and serializers, traceback bookkeeping, snapshot consistency and line integrity are checked after join. Holds on every schedule explored.",
        "Pausing a thread at a line event does not change what the code computes; preemption inside one C-level write is only reached by the free-running facet.",
        "DESIGN.md section 3 C16",
    ),
    "C05": (
        "exploration",
        "schedule exploration (Hypothesis-generated programs x plans): real threads parked at logging-call boundaries (and, in half of the cases, at the moment a destination is handed a message) and real asyncio tasks parked at await points by a harness-owned scheduler; identity oracle on current_action() per worker, metamorphic equality of the parsed forest across schedules, model equality",
        "Structured concurrent programs (threads started bare / via preserve_context / via continue_task; asyncio tasks with nested gather, shared contexts, handed-over action objects) are each executed under several generated schedules; every worker's current_action() must be its own stack top at every step and across every park/resume, and the reconstructed forest must equal the model and be identical for all schedules. Holds on every schedule explored.",
        "Interleavings finer than logging-call boundaries / destination calls / await points are outside the property's quantifier. Sibling order among concurrent workers is not compared.",
        "DESIGN.md section 3 C05",
    ),
    "C06": (
        "exploration",
        "property-based testing (Hypothesis): programs with hand-offs (inline, thread, forked process with its own log file) x merge permutations, model equality of the parsed merged log; schedule exploration at source-line and bytecode-instruction granularity (generated + enumerated single-preemption plans) of concurrent calls of one preserve_context callable and of threads handing out ids (serialize_task_id / preserve_context) while others log in the same action; sequential call histories with arbitrary keyword arguments and callable kinds (plain, functools.wraps-decorated, callable object, partial, bound method)",
        "Generated programs hand work to other threads/processes at arbitrary depths (multi-hop, many ids), the sides' logs are merged in a generated order and must parse to the model forest; the single-use guarantee of preserve_context is explored under harness-owned interleavings of 2-3 threads at source-line and bytecode granularity in eliot/_action.py. Holds on everything explored.",
        "Ids used twice or never are outside the quantifier. Scheduler assumption as for C16.",
        "DESIGN.md section 3 C06",
    ),
    "C11": (
        "fault_enumeration",
        "crash-point fault injection over generated programs (Hypothesis): forked child with deterministic uuids/clock, SIGKILL at generated points (before write, after a byte prefix, before flush, after flush, external after k acks); byte-prefix + acknowledgement oracle against the uncrashed reference run, parser checked against an independent reference tree; a forced two-thread stall for acknowledged-but-unwritten messages",
        "Each generated program is run to completion once (reference bytes and per-call offsets) and once in a forked child killed at a generated instant; the surviving file must be a prefix of the reference at least as long as the last acknowledged call, parse without error, agree with an independent tree builder and report completeness exactly. Holds on every crash point generated.",
        "Durability against process death (page cache), not power loss. The reference run shares the deterministic counters with the child.",
        "DESIGN.md section 3 C11",
    ),
    "C14": (
        "exploration",
        "property-based testing (Hypothesis): generated type definitions; conforming use must validate, every generated single-point deviation must be reported (incl. after validate()+reset() histories and extra fields named like other types' fields); generated TestCase outcomes under capture_logging with an identity oracle on the default logger",
        "Generated MessageType/ActionType definitions are used correctly (must validate) and with exactly one deviation (must raise ValidationError/TypeError); unflushed tracebacks must fail first; decorated tests with every outcome must leave the previous default logger in place. Holds on everything generated.",
        "bytes fields and bool-for-int are not used as deviations (see DESIGN.md); validate() once per logger state.",
        "DESIGN.md section 3 C14",
    ),
    "C15": (
        "exploration",
        "property-based testing (Hypothesis): generated generator bodies x driver scripts (next/send/throw/close from changing driver contexts); identity oracle on current_action() inside and outside, differential trace against the undecorated generators, model equality of the reconstructed forest",
        "1-3 decorated generators built from a DSL are driven by generated scripts from different surrounding contexts; every step checks the generator's and the driver's current action by identity, the trace of values/exceptions must equal the undecorated run (incl. StopIteration.value), and the logged forest must equal the model. Holds on everything generated.",
        "Only the wrapper that eliot.twisted.inline_callbacks delegates to is exercised (Twisted absent).",
        "DESIGN.md section 3 C15",
    ),
    "C17": (
        "exploration",
        "property-based testing (Hypothesis): generated programs captured by a MemoryLogger; differential between eliot.testing helpers, eliot.parse.Parser and an independent reconstruction (identity of message objects, emission order), plus generated expected-field sets for the assert helpers",
        "For every action/message type in generated logs (repeated types at several depths, interleaved tasks, remote children emitted out of level order or after their parent ended) of_type / children / descendants / type_tree / assertHasAction / assertHasMessage are compared with an independent reconstruction and with the parser's tree. Holds on everything generated.",
        "Logs with unfinished actions are outside the quantifier (of_type raises by design).",
        "DESIGN.md section 3 C17",
    ),
    "C18": (
        "exploration",
        "property-based differential testing (Hypothesis): generated function sources (all parameter kinds, colliding names, methods) x decorator options x valid and random argument lists; decorated vs undecorated behaviour and logged arguments vs inspect.signature binding; schedule exploration (source-line and bytecode granularity) of threads making the first calls of one decorated function",
        "Generated functions are exec'd, decorated with generated options and called with generated (often unbindable) argument lists; results, raised objects, TypeErrors, the logged start/end messages and the wrapper's metadata are compared with the undecorated function and Python's own binding. Holds on everything generated.",
        "Positional-only parameters are an open known finding (F4, third-party boltons) excluded by construction and reproduced on every run.",
        "DESIGN.md section 3 C18",
    ),
    "C19": (
        "fault_enumeration",
        "property-based testing over schedules and fault masks (Hypothesis): real producer/writer threads around a gated destination that fixes how much is written when stop is requested, plus the reader thread, producers and stopService run as workers of a harness-owned scheduler over eliot/logwriter.py at source-line and bytecode-instruction granularity (generated plans + enumerated preemptions); exact sequence, thread-identity and stop-completion oracles",
        "Generated start/stop cycles, producer mixes, destination failure masks and gate positions drive a real ThreadedWriter (failures of the classes real outputs raise, incl. BlockingIOError; bounded waits of the code under test are taken to run out, the harness owning the clock); the wrapped destination must see exactly the offered sequence on one foreign thread, producers must not wait for output, and stopService's result must complete exactly after the queued tail is written. Holds on everything generated.",
        "Uses small stand-ins for twisted.application.service.Service and twisted.internet.threads.deferToThreadPool (Twisted not installable).",
        "DESIGN.md section 3 C19",
    ),
    "C20": (
        "exploration",
        "property-based testing (Hypothesis): generated messages parsed back from compact_format/pretty_format by an independent reader; generated input streams through eliot-prettyprint's _main against an independent line classifier; eliot.filter against a table of expressions with Python models; coverage-guided fuzzing (atheris/libFuzzer, in-process, seeded corpus + dictionary) of the CLI with the same line-by-line oracle",
        "Generated messages (arbitrary field names/values incl. multi-line text and unicode line separators) must be rendered completely and in the documented order; mixed streams of Eliot lines, arbitrary bytes and non-object JSON must be processed line by line without aborting; filter output must equal the expression's value per line. Holds on everything generated.",
        "Required fields with wrong types are outside the property's list; -l only checked for not crashing.",
        "DESIGN.md section 3 C20",
    ),
}

NOT_YET = "check not built yet in this round; see DESIGN.md for the planned generator and oracle"


def main():
    props = [json.loads(l)["id"] for l in open(os.path.join(HERE, "properties.jsonl"))]
    checks = []
    for pid in props:
        if pid not in CHECKS:
            continue
        cat, tech, text, note, ref = CHECKS[pid]
        checks.append(
            {
                "property_id": pid,
                "quick_cmd": "PYTHONHASHSEED=0 /venv/bin/python run.py %s --tier quick" % pid,
                "thorough_cmd": "PYTHONHASHSEED=0 /venv/bin/python run.py %s --tier thorough" % pid,
                "evidence_file": "/verif/evidence/%s.json" % pid,
                "replay_cmd_template": "PYTHONHASHSEED=0 /venv/bin/python run.py %s --replay {path}" % pid,
                "engine": "pbt",
                "level_claimed": {"category": cat, "text": text, "design_ref": ref},
                "level_note": note,
                "technique": tech,
            }
        )
    manifest = {
        "version": 1,
        "setup_cmd": "/venv/bin/pip install --no-index --find-links /opt/veriftools/wheels --target /verif/.deps atheris >/dev/null 2>&1 || true",
        "hooks": {
            "guard": "ELIOT_VERIF",
            "enable": "no hooks are needed: checks observe eliot through destinations, file objects, current_action(), return values and sys.settrace; ELIOT_VERIF is reserved and unused",
            "baseline_off_cmd": "cd /repo && /venv/bin/python -m pytest -ra -q -p no:cacheprovider --timeout=900 --continue-on-collection-errors",
            "source_commits": [],
            "add_only": True,
        },
        "engines": [
            {
                "name": "pbt",
                "path": "/verif/run.py",
                "serves_properties": [c["property_id"] for c in checks],
                "kind_free_text": "Hypothesis property-based testing over pure-data cases (programs, histories, schedules, fault masks, crash points), sharded over processes; shrunk failures become replay files",
            }
        ],
        "checks": checks,
        "notes": "All checks test the working tree at /repo (ELIOT_VERIF_REPO overrides for mutant validation). Seeds come from VERIF_SEED. Exit 2 = harness error, never a violation.",
        "not_applicable": [{"property_id": p, "reason": NOT_YET} for p in props if p not in CHECKS],
    }
    path = os.path.join(HERE, "MANIFEST.json")
    with open(path, "w") as f:
        json.dump(manifest, f, indent=1)
        f.write("\n")
    try:
        import jsonschema

        jsonschema.validate(manifest, json.load(open("/root/.vp/MANIFEST.schema.json")))
        print("MANIFEST.json valid; %d checks" % len(checks))
    except ImportError:
        print("MANIFEST.json written (jsonschema not available to validate)")


if __name__ == "__main__":
    main()
