#!/venv/bin/python
"""
Manage the independently written breaking changes under /verif/seeded/.

    seeded.py import C01 [--round N]  copy /tmp/seed<N>/C01/{patch,demo}_{a,b} into seeded/C01a, C01b (c/d, e/f, g/h for rounds 2-4)
    seeded.py confirm NAME [--suite]  scratch worktree: demo passes without, fails with the patch;
                                      with --suite also run the pinned test suite with the patch
    seeded.py check NAME [PROP ...] [--tier T]   run our checks against the patched tree
    seeded.py list

Scratch worktrees live under /tmp and are removed immediately.
"""

import argparse
import json
import os
import shutil
import subprocess
import sys
import tempfile
import time
import xml.etree.ElementTree as ET

HERE = os.path.dirname(os.path.dirname(os.path.abspath(__file__)))
SEEDED = os.path.join(HERE, "seeded")


def sh(cmd, **kw):
    return subprocess.run(cmd, shell=isinstance(cmd, str), capture_output=True, text=True, **kw)


def load_meta(name):
    path = os.path.join(SEEDED, name, "meta.json")
    if os.path.exists(path):
        return json.load(open(path))
    return {"name": name}


def save_meta(name, meta):
    with open(os.path.join(SEEDED, name, "meta.json"), "w") as f:
        json.dump(meta, f, indent=1)
        f.write("\n")


def cmd_import(args):
    src = os.path.join({1: "/tmp/seed", 2: "/tmp/seed2", 3: "/tmp/seed3", 4: "/tmp/seed4", 5: "/tmp/seed5", 6: "/tmp/seed6"}[args.round], args.prop)
    for letter in "ab":
        patch = os.path.join(src, "patch_%s.diff" % letter)
        demo = os.path.join(src, "demo_%s.py" % letter)
        if not (os.path.exists(patch) and os.path.exists(demo)):
            continue
        name = "%s%s" % (args.prop, {1: {"a": "a", "b": "b"}, 2: {"a": "c", "b": "d"}, 3: {"a": "e", "b": "f"}, 4: {"a": "g", "b": "h"}, 5: {"a": "i", "b": "j"}, 6: {"a": "k", "b": "l"}}[args.round][letter])
        d = os.path.join(SEEDED, name)
        os.makedirs(d, exist_ok=True)
        shutil.copy(patch, os.path.join(d, "patch.diff"))
        shutil.copy(demo, os.path.join(d, "demo.py"))
        meta = load_meta(name)
        meta.update({"name": name, "property": args.prop, "source": "independent sub-agent given only the property text and a scratch worktree"})
        save_meta(name, meta)
        print("imported", name)


def worktree():
    d = tempfile.mkdtemp(prefix="sw-", dir="/tmp")
    os.rmdir(d)
    r = sh(["git", "-C", "/repo", "worktree", "add", "-q", "--detach", d, "HEAD"])
    if r.returncode:
        raise SystemExit(r.stderr)
    return d


def drop(d):
    sh(["git", "-C", "/repo", "worktree", "remove", "--force", d])
    shutil.rmtree(d, ignore_errors=True)


def cmd_confirm(args):
    name = args.name
    d = os.path.join(SEEDED, name)
    wt = worktree()
    meta = load_meta(name)
    try:
        shutil.copy(os.path.join(d, "demo.py"), os.path.join(wt, "demo_seeded.py"))
        r0 = sh(["/venv/bin/python", "demo_seeded.py"], cwd=wt, timeout=600)
        ap = sh(["git", "apply", os.path.join(d, "patch.diff")], cwd=wt)
        if ap.returncode:
            print("patch does not apply:", ap.stderr)
            meta["confirmed"] = False
            save_meta(name, meta)
            return 1
        r1 = sh(["/venv/bin/python", "demo_seeded.py"], cwd=wt, timeout=600)
        imp = sh(["/venv/bin/python", "-c", "import eliot; print(eliot.__file__)"], cwd=wt)
        meta["demo_exit_without_patch"] = r0.returncode
        meta["demo_exit_with_patch"] = r1.returncode
        meta["demo_output_with_patch"] = (r1.stdout + r1.stderr)[-600:]
        ok = r0.returncode == 0 and r1.returncode == 1 and wt in imp.stdout
        print("%s: demo without patch exit=%d, with patch exit=%d" % (name, r0.returncode, r1.returncode))
        if args.suite:
            xml = os.path.join(wt, "junit.xml")
            t0 = time.time()
            sh(
                ["/venv/bin/python", "-m", "pytest", "-q", "-p", "no:cacheprovider", "--timeout=900", "--continue-on-collection-errors", "--junitxml=" + xml, "-x" if False else "-q"],
                cwd=wt,
                timeout=3600,
            )
            base = json.load(open("/root/.vp/BASELINE.json"))["stable_pass"]
            passed = set()
            for tc in ET.parse(xml).getroot().iter("testcase"):
                if not any(ch.tag in ("failure", "error", "skipped") for ch in tc):
                    passed.add("%s::%s" % (tc.get("classname"), tc.get("name")))
            missing = [b for b in base if b not in passed]
            meta["suite_with_patch"] = {"baseline_passed": len(base) - len(missing), "baseline_missing": missing[:10], "wall_s": round(time.time() - t0)}
            print("%s: suite with patch: %d/%d baseline tests pass" % (name, len(base) - len(missing), len(base)))
            ok = ok and not missing
        meta["confirmed"] = bool(ok)
        meta["confirmed_how"] = "tools/seeded.py confirm %s%s in a scratch worktree of /repo HEAD" % (name, " --suite" if args.suite else "")
        save_meta(name, meta)
        return 0 if ok else 1
    finally:
        drop(wt)


def cmd_check(args):
    name = args.name
    meta = load_meta(name)
    props = args.props or [meta.get("property")]
    patch = os.path.join(SEEDED, name, "patch.diff")
    out = sh(["/venv/bin/python", os.path.join(HERE, "tools", "mutants.py"), "--patch", patch, "--tier", args.tier, "--seed", args.seed] + props, timeout=7200)
    print(out.stdout.strip())
    if out.returncode:
        print(out.stderr[-2000:])
    res = meta.setdefault("checks", {})
    for line in out.stdout.splitlines():
        parts = line.split()
        if len(parts) >= 3 and parts[1] in props:
            res["%s/%s" % (parts[1], args.tier)] = parts[2]
    save_meta(name, meta)


def cmd_list(args):
    for name in sorted(os.listdir(SEEDED)):
        m = load_meta(name)
        print("%-6s confirmed=%-5s checks=%s" % (name, m.get("confirmed"), m.get("checks")))


def main():
    ap = argparse.ArgumentParser()
    sub = ap.add_subparsers(dest="cmd")
    p = sub.add_parser("import")
    p.add_argument("prop")
    p.add_argument("--round", type=int, default=1)
    p = sub.add_parser("confirm")
    p.add_argument("name")
    p.add_argument("--suite", action="store_true")
    p = sub.add_parser("check")
    p.add_argument("name")
    p.add_argument("props", nargs="*")
    p.add_argument("--tier", default="quick")
    p.add_argument("--seed", default="1")
    sub.add_parser("list")
    args = ap.parse_args()
    os.makedirs(SEEDED, exist_ok=True)
    return {"import": cmd_import, "confirm": cmd_confirm, "check": cmd_check, "list": cmd_list}[args.cmd](args)


if __name__ == "__main__":
    sys.exit(main())
