#!/bin/bash
# run every check at the given tier, print one summary line per property
tier=${1:-quick}
shift
props=${@:-C01 C02 C03 C04 C05 C06 C07 C08 C09 C10 C11 C12 C13 C14 C15 C16 C17 C18 C19 C20}
cd "$(dirname "$0")/.."
for p in $props; do
  start=$(date +%s)
  out=$(PYTHONHASHSEED=0 /venv/bin/python run.py $p --tier $tier 2>&1)
  code=$?
  end=$(date +%s)
  echo "$p exit=$code wall=$((end-start))s $(echo "$out" | grep -E "^C[0-9]+ tier=" | cut -c1-120)"
  if [ $code -ne 0 ]; then echo "$out" | grep -E "^violation|VIOLATION|HARNESS" | cut -c1-400; fi
done
