#!/venv/bin/python
"""
Single entry point of the verification machinery.

    run.py CNN --tier quick|thorough [--facet NAME ...] [--scale F]
    run.py CNN --replay FILE

Reads VERIF_SEED (default 1) and VERIF_TIER (overridden by --tier).
Tests the tree at $ELIOT_VERIF_REPO (default /repo).
"""

import argparse
import os
import sys

if os.environ.get("PYTHONHASHSEED") != "0":
    os.environ["PYTHONHASHSEED"] = "0"
    os.execve(sys.executable, [sys.executable] + sys.argv, os.environ)

HERE = os.path.dirname(os.path.abspath(__file__))
sys.path.insert(0, HERE)

from pbt import core  # noqa: E402


def main():
    ap = argparse.ArgumentParser()
    ap.add_argument("property")
    ap.add_argument("--tier", default=os.environ.get("VERIF_TIER", "quick"), choices=["quick", "thorough"])
    ap.add_argument("--replay")
    ap.add_argument("--facet", action="append")
    ap.add_argument("--scale", type=float, default=1.0)
    args = ap.parse_args()
    os.chdir(HERE)
    try:
        seed = int(os.environ.get("VERIF_SEED", "1"))
    except ValueError:
        seed = 1
    try:
        if args.replay:
            return core.replay_file(args.replay)
        return core.run_property(args.property.upper(), args.tier, seed, args.facet, args.scale)
    except core.HarnessError as e:
        sys.stderr.write("HARNESS ERROR: %s\n" % e)
        return 2
    except Exception:
        import traceback

        traceback.print_exc()
        return 2


if __name__ == "__main__":
    sys.exit(main())
