"""
Hostile field values for C07: things that cannot be turned into text or JSON.
Exceptions raised *by the hostile objects themselves* carry `hostile = True`
so the harness can tell them from its own bugs.
"""

from hypothesis import strategies as st

from . import values as V


class HostileError(Exception):
    hostile = True


class BadStr(object):
    def __str__(self):
        raise HostileError("__str__ raises")

    def __repr__(self):
        raise HostileError("__repr__ raises")


class BadRepr(object):
    def __str__(self):
        return "bad-repr-object"

    def __repr__(self):
        raise HostileError("__repr__ raises")


class BadStrBase(object):
    """str() raises something that is not an Exception subclass of the usual kind."""

    def __str__(self):
        raise HostileError("nope")


class Plain(object):
    pass


# one-shot iterators handed to eliot as field values in the current case: logging must not use them up
ITERATORS = []


def decode_hostile(v):
    t = v[V.TAG]
    if t == "badstr":
        return BadStr()
    if t == "badrepr":
        return BadRepr()
    if t == "object":
        return Plain()
    if t == "bigint":
        return (2 ** v.get("bits", 70)) * (-1 if v.get("neg") else 1)
    if t == "nonstrkeys":
        return {1: "a", (1, 2): "b", None: "c", BadRepr(): 1} if v.get("bad") else {1: "a", (1, 2): "b", None: "c"}
    if t == "surrogate":
        return "lone\ud800surrogate"
    if t == "badbytes":
        return b"\xff\xfe\x00bytes"
    if t == "lambda":
        return lambda: None
    if t == "generator":
        g = (i for i in range(3))
        ITERATORS.append(g)
        return g
    if t == "type":
        return Plain
    if t == "excinstance":
        return ValueError(BadStr())
    if t == "deep":
        out = []
        for _ in range(v.get("depth", 5000)):
            out = [out]
        return out
    if t == "deepdict":
        out = {}
        for _ in range(v.get("depth", 3000)):
            out = {"k": out}
        return out
    if t == "setof":
        return {Plain, 1, "x"}
    if t == "selfref":
        a = []
        a.append(a)
        return a
    if t == "hugestr":
        return "x" * v.get("n", 200000)
    raise ValueError("unknown tag %r" % (t,))


HOSTILE_TAGS = [
    "badstr",
    "badrepr",
    "object",
    "bigint",
    "nonstrkeys",
    "surrogate",
    "badbytes",
    "lambda",
    "generator",
    "type",
    "excinstance",
    "deep",
    "deepdict",
    "setof",
    "selfref",
]


def hostile_values():
    simple = st.sampled_from(HOSTILE_TAGS).map(lambda t: V.tag(t))
    nan = st.sampled_from(["nan", "inf", "-inf"]).map(lambda s: V.tag("float", v=s))
    bigneg = st.just(V.tag("bigint", bits=64, neg=True))
    badkeys = st.just(V.tag("nonstrkeys", bad=True))
    leaves = st.one_of(simple, simple, nan, bigneg, badkeys, V.small_values())
    return st.one_of(
        leaves,
        st.lists(leaves, max_size=3),
        st.dictionaries(V.keys(), leaves, max_size=3),
    )
