"""
Runner shared by all property checks.

A property module (pbt/props/cNN.py) exposes

    PROPERTY   = "CNN"
    LEVEL      = "exploration" | "fault_enumeration"
    RULE       = text: how cases are generated and what makes one non-trivial
    ASSUMPTIONS = [text, ...]
    FACETS     = [Facet(...), ...]
    KNOWN      = {key: matcher(facet_name, case, violation) -> bool}   (optional)

Each facet is an independent Hypothesis test over *pure-data* cases.  The
runner shards each facet over a process pool, seeds every shard from
VERIF_SEED, records statistics, caps shrinking, writes the replay file of the
smallest failing case, and writes the evidence file.

Exit codes: 0 held, 1 violation (line "VIOLATION property=<id> replay=<path>"),
2 harness error.
"""

import hashlib
import importlib
import json
import multiprocessing
import os
import sys
import time
import traceback
import zlib

VERIF = os.path.dirname(os.path.dirname(os.path.abspath(__file__)))
REPO = os.path.abspath(os.environ.get("ELIOT_VERIF_REPO", "/repo"))

_setup_done = False


def setup_path():
    """Make `import eliot` resolve to the tree under test (default /repo)."""
    global _setup_done
    if _setup_done:
        return
    for p in (os.path.join(VERIF, ".deps"), VERIF):
        if p not in sys.path:
            sys.path.insert(0, p)
    if REPO in sys.path:
        sys.path.remove(REPO)
    sys.path.insert(0, REPO)
    import warnings

    warnings.simplefilter("ignore", DeprecationWarning)
    import eliot

    here = os.path.realpath(eliot.__file__)
    if not here.startswith(os.path.realpath(REPO) + os.sep):
        raise HarnessError("eliot imported from %s, not from %s" % (here, REPO))
    _setup_done = True


class Violation(Exception):
    """The property does not hold for this case."""

    def __init__(self, kind, detail=""):
        Exception.__init__(self, "%s: %s" % (kind, detail))
        self.kind = kind
        self.detail = detail


class HarnessError(Exception):
    """The check itself is broken; never reported as a violation."""


def require(cond, kind, detail=""):
    if not cond:
        if callable(detail):
            detail = detail()
        raise Violation(kind, detail)


class Facet(object):
    def __init__(
        self,
        name,
        strategy,
        check,
        classify,
        quick,
        thorough,
        quick_shards=8,
        thorough_shards=16,
        runner=None,
        replayable=True,
    ):
        """
        @param strategy: zero-argument callable returning a Hypothesis strategy
            of pure-data cases (built lazily inside the worker process).
        @param check: check(case) -> info (any JSON-able value or None); raises
            Violation.
        @param classify: classify(case, info) -> (nontrivial, [labels]).
        @param quick/thorough: number of generated cases per tier.
        @param runner: optional replacement for the Hypothesis loop:
            runner(facet, tier, seed, shard, nshards, stats) for enumerations.
        """
        self.name = name
        self.strategy = strategy
        self.check = check
        self.classify = classify
        self.budget = {"quick": quick, "thorough": thorough}
        self.shards = {"quick": quick_shards, "thorough": thorough_shards}
        self.runner = runner
        self.replayable = replayable


def canon(value):
    """Canonical JSON text of a pure-data value (type-strict, order-free)."""
    return json.dumps(value, sort_keys=True, ensure_ascii=True, default=_canon_default)


def _canon_default(o):
    if isinstance(o, bytes):
        return {"$bytes": o.hex()}
    if isinstance(o, (set, frozenset)):
        return {"$set": sorted(canon(x) for x in o)}
    if isinstance(o, tuple):
        return list(o)
    return {"$repr": repr(o)}


def case_hash(case):
    return hashlib.blake2b(canon(case).encode("utf-8"), digest_size=8).digest()


def clip(value, limit=1500):
    """A JSON-able, size-bounded rendering of a case for evidence samples."""
    text = canon(value)
    if len(text) <= limit:
        return json.loads(text)
    return {"$clipped_json": text[:limit] + "...", "$len": len(text)}


class Stats(object):
    def __init__(self):
        self.evaluations = 0
        self.nontrivial = set()
        self.labels = {}
        self.small = []  # (size, case) smallest non-trivial
        self.large = []  # largest non-trivial
        self.failures = []  # (size, case, kind, detail)
        self.known = {}
        self.excluded = {}
        self.extra = {}
        self.harness_error = None
        self.first_failure_at = None
        self.exhaustive = None

    def note_case(self, case, nontrivial, labels):
        self.evaluations += 1
        for label in labels or ():
            self.labels[label] = self.labels.get(label, 0) + 1
        if nontrivial:
            h = case_hash(case)
            if h not in self.nontrivial:
                self.nontrivial.add(h)
                size = len(canon(case))
                if len(self.small) < 3 or size < self.small[-1][0]:
                    self.small.append((size, case))
                    self.small.sort(key=lambda x: x[0])
                    del self.small[3:]
                if len(self.large) < 2 or size > self.large[0][0]:
                    self.large.append((size, case))
                    self.large.sort(key=lambda x: -x[0])
                    del self.large[2:]

    def note_failure(self, case, violation):
        if self.first_failure_at is None:
            self.first_failure_at = time.time()
        size = len(canon(case))
        self.failures.append((size, case, violation.kind, str(violation.detail)[:4000]))
        self.failures.sort(key=lambda x: x[0])
        del self.failures[5:]

    def export(self):
        return {
            "evaluations": self.evaluations,
            "nontrivial": list(self.nontrivial),
            "labels": self.labels,
            "small": self.small,
            "large": self.large,
            "failures": self.failures,
            "known": self.known,
            "excluded": self.excluded,
            "extra": self.extra,
            "harness_error": self.harness_error,
            "exhaustive": self.exhaustive,
        }


SHRINK_CAP = {"quick": 40.0, "thorough": 180.0}
FAILING = False  # set in a shard once it has recorded a failure


def shard_seed(seed, prop, facet, shard):
    return zlib.crc32(("%s/%s/%s/%d" % (seed, prop, facet, shard)).encode()) & 0x7FFFFFFF


def _load(prop):
    setup_path()
    return importlib.import_module("pbt.props.%s" % prop.lower())


def _known_key(mod, facet_name, case, violation):
    for key, matcher in getattr(mod, "KNOWN", {}).items():
        try:
            if matcher(facet_name, case, violation):
                return key
        except Exception:
            pass
    return None


class _Blocked(object):
    """
    Watchdog for a check that never returns because the code under test waits
    for a lock nobody is going to release (for example a lock of its own that
    the same thread already holds).  Slowness is never reported: only a thread
    that sits at the very same instruction of eliot's code for three samples
    in a row while the whole process uses no CPU time counts; anything else
    that takes too long ends as a harness error (inconclusive).
    """

    FIRST = 8.0
    STEP = 4.0
    GIVE_UP = 1800.0

    def __init__(self):
        self.armed = False
        self.samples = []
        self.started = 0.0
        self.fired = None

    def _alarm(self, signum, frame):
        import signal

        if not self.armed:
            return
        # (frame: where the main thread was interrupted)
        if os.environ.get("VERIF_WD_DEBUG"):
            sys.stderr.write("alarm pid=%d %s:%s samples=%d fired=%s\n" % (os.getpid(), frame.f_code.co_filename, frame.f_lineno, len(self.samples), bool(self.fired)))
        prefix = os.path.join(REPO, "eliot") + os.sep
        blocked = []
        for tid, f in sys._current_frames().items():
            if tid == _MAIN_THREAD:
                f = frame
            if f is not None and os.path.abspath(f.f_code.co_filename).startswith(prefix):
                if tid != _MAIN_THREAD and f.f_code.co_name == "_reader" and f.f_code.co_filename.endswith("logwriter.py"):
                    # the writer thread of a ThreadedWriter waiting for the next message is idle, not blocked
                    continue
                blocked.append((tid, id(f), f.f_lasti, f))
        blocked.sort(key=lambda b: b[:3])
        self.samples.append((tuple(b[:3] for b in blocked), time.process_time()))
        last = self.samples[-3:]
        if len(last) == 3 and blocked and last[0][0] == last[1][0] == last[2][0] and last[2][1] - last[0][1] < 0.05:
            stack = "".join(traceback.format_stack(blocked[0][3])[-6:])
            # (raised here, in the main thread, to get it going again - it may be the blocked one, or be waiting for it;
            # eliot may well swallow the exception, so it is raised again when the check is over)
            self.fired = "%s is blocked in eliot's own code and makes no progress (%.0f s, no CPU used by the process):\n%s" % (
                "the call" if blocked[0][0] == _MAIN_THREAD else "a thread of the program",
                time.time() - self.started,
                stack,
            )
            self.samples = []
            # one such call was established with patience; be quick about the next ones (same case, its replays, shrinking)
            self.FIRST, self.STEP = 1.0, 0.5
            signal.setitimer(signal.ITIMER_REAL, self.STEP)
            raise Violation("never-returned", self.fired)
        if time.time() - self.started > self.GIVE_UP:
            self.armed = False
            raise HarnessError("one case ran for more than %d s" % self.GIVE_UP)
        signal.setitimer(signal.ITIMER_REAL, self.STEP)

    def __enter__(self):
        import signal
        import threading

        if threading.get_ident() != _MAIN_THREAD:
            return self
        self.samples = []
        self.fired = None
        self.started = time.time()
        self.armed = True
        signal.signal(signal.SIGALRM, self._alarm)
        signal.setitimer(signal.ITIMER_REAL, self.FIRST)
        return self

    def __exit__(self, *exc):
        import signal
        import threading

        self.armed = False
        if threading.get_ident() == _MAIN_THREAD:
            signal.setitimer(signal.ITIMER_REAL, 0)
        return False


import threading as _threading

_MAIN_THREAD = _threading.main_thread().ident
_blocked = _Blocked()


def checked(facet, case):
    """facet.check(case) under the watchdog above."""
    try:
        with _blocked:
            return facet.check(case)
    finally:
        if _blocked.fired:
            fired, _blocked.fired = _blocked.fired, None
            raise Violation("never-returned", fired)


def run_one(mod, facet, case):
    """Run check on one case.  Returns (info, violation_or_None, known_key)."""
    try:
        info = checked(facet, case)
        return info, None, None
    except Violation as v:
        return None, v, _known_key(mod, facet.name, case, v)


def _shard_worker(args):
    prop, facet_name, tier, seed, shard, nshards, count = args
    stats = Stats()
    try:
        mod = _load(prop)
        facet = [f for f in mod.FACETS if f.name == facet_name][0]
        if facet.runner is not None:
            facet.runner(mod, facet, tier, seed, shard, nshards, stats)
        else:
            _hypothesis_shard(mod, facet, tier, seed, shard, count, stats)
    except BaseException:
        stats.harness_error = traceback.format_exc()
    return (facet_name, shard, stats.export())


def _proc_main(job, conn):
    """One shard in its own process; leaves with os._exit so that threads leaked by a (broken) tree under test cannot keep it alive."""
    try:
        res = _shard_worker(job)
    except BaseException:
        st = Stats()
        st.harness_error = traceback.format_exc()
        res = (job[1], job[4], st.export())
    try:
        conn.send(res)
        conn.close()
    finally:
        sys.stdout.flush()
        sys.stderr.flush()
        os._exit(0)


def _run_jobs(jobs, nproc):
    from multiprocessing.connection import wait

    ctx = multiprocessing.get_context("fork")
    pending = list(jobs)
    active = {}  # conn -> (process, job)
    out = []
    while pending or active:
        while pending and len(active) < nproc:
            job = pending.pop(0)
            parent, child = ctx.Pipe(duplex=False)
            p = ctx.Process(target=_proc_main, args=(job, child))
            p.start()
            child.close()
            active[parent] = (p, job)
        for conn in wait(list(active), timeout=1.0):
            p, job = active.pop(conn)
            try:
                out.append(conn.recv())
            except EOFError:
                st = Stats()
                st.harness_error = "shard process died without a result (exit code %r)" % (p.exitcode,)
                out.append((job[1], job[4], st.export()))
            conn.close()
            p.join(5)
    return out


def _hypothesis_shard(mod, facet, tier, seed, shard, count, stats):
    import hypothesis
    from hypothesis import HealthCheck, Phase, given, settings
    from hypothesis import seed as hseed

    cap = SHRINK_CAP[tier]

    def body(case):
        global FAILING
        if stats.first_failure_at is not None:
            FAILING = True  # checks may shorten diagnostic waits from now on
            if time.time() - stats.first_failure_at > cap:
                return  # shrink cap reached: let Hypothesis terminate quickly
        try:
            info = checked(facet, case)
        except Violation as v:
            key = _known_key(mod, facet.name, case, v)
            if key is not None:
                stats.known[key] = stats.known.get(key, 0) + 1
                stats.evaluations += 1
                return
            stats.note_failure(case, v)
            if time.time() - stats.first_failure_at > cap:
                return  # shrink cap reached: let Hypothesis terminate
            raise
        nontrivial, labels = facet.classify(case, info)
        stats.note_case(case, nontrivial, labels)

    test = given(facet.strategy())(body)
    test = settings(
        max_examples=count,
        database=None,
        deadline=None,
        derandomize=False,
        report_multiple_bugs=False,
        print_blob=False,
        suppress_health_check=[HealthCheck.too_slow, HealthCheck.data_too_large],
        phases=[Phase.generate, Phase.shrink],
        verbosity=hypothesis.Verbosity.quiet,
    )(test)
    test = hseed(shard_seed(seed, mod.PROPERTY, facet.name, shard))(test)
    try:
        test()
    except Violation:
        pass
    except hypothesis.errors.FailedHealthCheck:
        raise
    except BaseException:
        if stats.failures:
            # Flaky / shrink-cap artefacts after a recorded failure.
            pass
        else:
            raise


def enumerate_cases(mod, facet, cases, shard, nshards, stats, exhaustive=True):
    """Runner helper: check every case of a finite enumeration (sharded)."""
    for i, case in enumerate(cases):
        if i % nshards != shard:
            continue
        info, violation, key = run_one(mod, facet, case)
        if violation is not None:
            if key is not None:
                stats.known[key] = stats.known.get(key, 0) + 1
                stats.evaluations += 1
                continue
            stats.note_failure(case, violation)
            stats.exhaustive = False
            return
        nontrivial, labels = facet.classify(case, info)
        stats.note_case(case, nontrivial, labels)
    stats.exhaustive = exhaustive


def replay_file(path):
    """Re-run one saved case without Hypothesis.  Returns exit code."""
    with open(path) as f:
        doc = json.load(f)
    os.environ["VERIF_TIER_INTERNAL"] = doc.get("tier", "quick")
    mod = _load(doc["property"])
    facet = [f for f in mod.FACETS if f.name == doc["facet"]][0]
    info, violation, key = run_one(mod, facet, doc["case"])
    if violation is None:
        print("replay: property held for %s" % path)
        return 0
    if key is not None:
        print("KNOWN-FINDING: property=%s %s (%s)" % (doc["property"], key, violation))
        return 0
    print("replay: %s" % violation)
    print("VIOLATION property=%s replay=%s" % (doc["property"], path))
    return 1


def _write_replay(prop, facet_name, case, kind, detail, tier, seed, tag):
    d = os.path.join(VERIF, "replays")
    os.makedirs(d, exist_ok=True)
    path = os.path.join(d, "%s-%s-%s.json" % (prop, facet_name, tag))
    with open(path, "w") as f:
        json.dump(
            {
                "property": prop,
                "facet": facet_name,
                "case": case,
                "violation": "%s: %s" % (kind, detail),
                "tier": tier,
                "seed": seed,
            },
            f,
            default=_canon_default,
        )
    return path


def load_known_findings(prop):
    path = os.path.join(VERIF, "known_findings.json")
    if not os.path.exists(path):
        return []
    with open(path) as f:
        doc = json.load(f)
    return [e for e in doc.get("findings", []) if e["property"] == prop]


def run_property(prop, tier, seed, only_facets=None, budget_scale=1.0):
    t0 = time.time()
    os.environ["VERIF_TIER_INTERNAL"] = tier
    setup_path()
    mod = _load(prop)
    violations = []  # replay paths
    lines = []
    facets = [f for f in mod.FACETS if not only_facets or f.name in only_facets]

    # 1. open known findings: deterministic reproductions first
    known_notes = []
    for entry in load_known_findings(prop):
        if entry.get("status") != "open":
            continue
        repro = entry.get("repro")
        still = None
        if repro:
            facet = [f for f in mod.FACETS if f.name == repro["facet"]][0]
            info, violation, key = run_one(mod, facet, repro["case"])
            still = violation is not None
            if violation is not None and key != entry["key"]:
                # The recorded input now fails in a different way.
                path = _write_replay(
                    prop, facet.name, repro["case"], violation.kind, violation.detail, tier, seed, "known-changed"
                )
                violations.append(path)
        if still is not False:
            print("KNOWN-FINDING: property=%s %s: %s" % (prop, entry["key"], entry["description"]))
        else:
            print("note: known finding %s no longer reproduces on this tree" % entry["key"])
        known_notes.append({"key": entry["key"], "reproduces": still})

    # 2. regression corpus
    corpus_dir = os.path.join(VERIF, "corpus", prop)
    corpus_run = 0
    if os.path.isdir(corpus_dir):
        for name in sorted(os.listdir(corpus_dir)):
            if not name.endswith(".json"):
                continue
            path = os.path.join(corpus_dir, name)
            with open(path) as f:
                doc = json.load(f)
            fl = [f for f in mod.FACETS if f.name == doc["facet"]]
            if not fl:
                raise HarnessError("corpus file %s names unknown facet" % path)
            info, violation, key = run_one(mod, fl[0], doc["case"])
            corpus_run += 1
            if violation is not None and key is None:
                print("corpus case fails: %s" % violation)
                violations.append(path)

    # 3. generated search
    jobs = []
    for facet in facets:
        n = max(1, int(facet.budget[tier] * budget_scale))
        shards = max(1, min(facet.shards[tier], n))
        per = (n + shards - 1) // shards
        for k in range(shards):
            jobs.append((prop, facet.name, tier, seed, k, shards, per))
    nproc = min(len(jobs), 8 if tier == "quick" else 16, os.cpu_count() or 1)
    results = []
    if nproc <= 1 or os.environ.get("VERIF_INPROCESS"):
        for job in jobs:
            results.append(_shard_worker(job))
    else:
        results.extend(_run_jobs(jobs, nproc))

    per_facet = {}
    harness_errors = []
    for facet_name, shard, ex in sorted(results, key=lambda r: (r[0], r[1])):
        agg = per_facet.setdefault(
            facet_name,
            {
                "evaluations": 0,
                "nontrivial": set(),
                "labels": {},
                "small": [],
                "large": [],
                "failures": [],
                "known": {},
                "excluded": {},
                "extra": {},
                "exhaustive": None,
            },
        )
        agg["evaluations"] += ex["evaluations"]
        agg["nontrivial"].update(ex["nontrivial"])
        for k, v in ex["labels"].items():
            agg["labels"][k] = agg["labels"].get(k, 0) + v
        for k, v in ex["known"].items():
            agg["known"][k] = agg["known"].get(k, 0) + v
        for k, v in ex["excluded"].items():
            agg["excluded"][k] = agg["excluded"].get(k, 0) + v
        for k, v in ex["extra"].items():
            if isinstance(v, (int, float)) and not isinstance(v, bool):
                agg["extra"][k] = agg["extra"].get(k, 0) + v
            else:
                agg["extra"][k] = v
        agg["small"].extend(ex["small"])
        agg["large"].extend(ex["large"])
        agg["failures"].extend(ex["failures"])
        if ex["exhaustive"] is not None:
            agg["exhaustive"] = ex["exhaustive"] if agg["exhaustive"] in (None, True) else False
        if ex["harness_error"]:
            harness_errors.append("%s[%d]: %s" % (facet_name, shard, ex["harness_error"]))

    facet_by_name = dict((f.name, f) for f in facets)
    for facet_name, agg in per_facet.items():
        if not agg["failures"]:
            continue
        facet = facet_by_name[facet_name]
        agg["failures"].sort(key=lambda x: x[0])
        chosen = None
        if facet.replayable:
            for size, case, kind, detail in agg["failures"][:5]:
                info, violation, key = run_one(mod, facet, case)
                if violation is not None and key is None:
                    chosen = (case, violation.kind, violation.detail)
                    break
            if chosen is None:
                # Could not reproduce outside Hypothesis: report anyway, the
                # oracle is exact; note it in the replay file.
                size, case, kind, detail = agg["failures"][0]
                chosen = (case, kind, "(did not reproduce on direct replay) " + detail)
        else:
            size, case, kind, detail = agg["failures"][0]
            chosen = (case, kind, detail)
        path = _write_replay(prop, facet_name, chosen[0], chosen[1], chosen[2], tier, seed, "seed%s" % seed)
        print("violation in facet %s: %s: %s" % (facet_name, chosen[1], str(chosen[2])[:1500]))
        violations.append(path)

    # 4. evidence
    total_eval = sum(a["evaluations"] for a in per_facet.values())
    total_nt = sum(len(a["nontrivial"]) for a in per_facet.values())
    samples = []
    facets_ev = {}
    for facet_name, agg in sorted(per_facet.items()):
        small = sorted(agg["small"], key=lambda x: x[0])[:2]
        large = sorted(agg["large"], key=lambda x: -x[0])[:1]
        for size, case in small + large:
            samples.append({"facet": facet_name, "case": clip(case)})
        facets_ev[facet_name] = {
            "evaluations": agg["evaluations"],
            "distinct_nontrivial": len(agg["nontrivial"]),
            "classes": dict(sorted(agg["labels"].items())),
            "known_finding_hits": agg["known"],
            "excluded_by_construction": agg["excluded"],
            "extra": agg["extra"],
            "exhaustive": bool(agg["exhaustive"]),
        }
    wall = time.time() - t0
    evidence = {
        "property_id": prop,
        "tier": tier,
        "seed": seed,
        "level": mod.LEVEL,
        "coverage": {
            "evaluations": total_eval,
            "distinct_nontrivial": total_nt,
            "rule": mod.RULE,
            "samples": samples,
            "facets": facets_ev,
            "corpus_cases_replayed": corpus_run,
            "known_findings": known_notes,
            "exhaustive": bool(per_facet) and all(a["exhaustive"] for a in per_facet.values()),
            "tools": _tool_versions(),
            "tree": REPO,
        },
        "assumptions": list(getattr(mod, "ASSUMPTIONS", [])),
        "wall_s": round(wall, 2),
        "violations": len(violations),
    }
    os.makedirs(os.path.join(VERIF, "evidence"), exist_ok=True)
    if not only_facets and REPO == "/repo":
        with open(os.path.join(VERIF, "evidence", "%s.json" % prop), "w") as f:
            json.dump(evidence, f, indent=1, default=_canon_default)
            f.write("\n")

    print(
        "%s tier=%s seed=%s evaluations=%d distinct_nontrivial=%d wall=%.1fs"
        % (prop, tier, seed, total_eval, total_nt, wall)
    )
    for facet_name, ev in facets_ev.items():
        print("  facet %-14s evals=%-7d nontrivial=%-7d classes=%s" % (
            facet_name, ev["evaluations"], ev["distinct_nontrivial"],
            json.dumps(ev["classes"])[:600]))
    if harness_errors:
        for e in harness_errors:
            sys.stderr.write("HARNESS ERROR %s\n" % e)
        for path in violations:
            print("VIOLATION property=%s replay=%s" % (prop, path))
        return 1 if violations else 2
    for path in violations:
        print("VIOLATION property=%s replay=%s" % (prop, path))
    return 1 if violations else 0


def _tool_versions():
    import hypothesis

    out = {"python": sys.version.split()[0], "hypothesis": hypothesis.__version__}
    try:
        import orjson

        out["orjson"] = orjson.__version__
    except Exception:
        pass
    return out
