"""
C05 - concurrent threads and coroutines never leak action context into each other.
"""

from hypothesis import strategies as st

from ..core import Facet, Violation, require, canon, setup_path
from .. import conc, invariants, sched

setup_path()

PROPERTY = "C05"
LEVEL = "exploration"
RULE = (
    "Structured concurrent programs: a parent nested 0-2 actions deep starts 2-4 workers - threads (started bare, through "
    "preserve_context, or through serialize_task_id/continue_task) or asyncio tasks (inheriting the creator's action, with "
    "nested gather, the sub-tasks optionally created inside R.run(...) of a fresh action R); workers may enter the context()/run() of the parent's own action or of one shared action, and may "
    "enter an action object the parent created; - each running a generated nest of with / context()+finish / finish-inside / start_task actions and "
    "messages, joined before the parent's action ends. Every program is executed under 2-4 generated plans (which worker "
    "runs how many steps: at logging-call boundaries for threads - in half of the thread cases additionally at the moment a "
    "(blocking) destination is handed a message - and at await points for coroutines; harness-owned scheduler). Oracles: in every worker at every step current_action() IS the top of the worker's own stack (None at "
    "the start of a bare thread, the creator's action at the start of a task), identical before being parked and after "
    "being resumed; the observed forest (independent reconstruction; siblings as sets, per-worker order kept) equals the "
    "model and is identical for every plan of the same program; C02's invariants hold on each run. Non-trivial: >= 2 "
    "workers that each hold an entered action while >= 2 context switches happen between them. Facet cross-effects "
    "(enumerated, 36 scenarios): while one thread/task holds action A (with / context() / a generator's with-block), another "
    "one - bare or inside its own action - finishes A, tries to leave A's block from its own context (directly or by closing "
    "that generator; contextvars may refuse), or enters and leaves A.context()/A.run(): neither worker's current_action() "
    "changes. Distinct = canonical JSON."
)
ASSUMPTIONS = [
    "sibling order among concurrent workers is schedule-dependent by design and not compared",
    "unstructured programs (work outliving the enclosing action) are not generated; one action object is used from several threads only at logging-call granularity (the scheduler runs one thread at a time)",
]


def check(case):
    shapes = []
    info = {"switches": 0, "steps": 0, "checks": 0, "plans": len(case["plans"])}
    for plan in case["plans"]:
        world, messages = conc.run_case_once(case, plan)
        require(not world.errors, "context-leak", lambda: "plan %r: %s" % (plan, "; ".join(world.errors[:4])))
        invariants.check_messages(messages, causal=True)
        got = conc.observed_shape(messages)
        want = conc.expected_shape(world)
        require(
            canon(got) == canon(want),
            "forest-differs-from-model",
            lambda: "plan %r\nobserved %s\nexpected %s" % (plan, canon(got)[:1500], canon(want)[:1500]),
        )
        shapes.append(canon(got))
        info["switches"] = max(info["switches"], world.scheduler_switches)
        info["steps"] += world.steps
        info["checks"] += world.ctx_switch_checks
    require(len(set(shapes)) == 1, "schedule-dependent-forest", lambda: "the parsed forest differs between plans: %s vs %s" % (shapes[0][:800], [s for s in shapes if s != shapes[0]][0][:800]))
    return info


def holding(case):
    """Number of workers whose body enters at least one action."""
    def has_action(nodes):
        return any("a" in n or "s" in n or ("g" in n and any(has_action(b) for b in n["g"])) for n in nodes)

    return sum(1 for w in case["workers"] if has_action(w["body"]))


def classify(case, info):
    labels = ["mode:" + case["mode"], "workers=%d" % len(case["workers"]), "outer=%d" % case["outer"], "switches=%d" % min(info["switches"], 8)]
    for w in case["workers"]:
        labels.append("start:" + w["start"])
        if w.get("pre"):
            labels.append("action-created-by-parent")
    text = canon(case["workers"])
    if '"s":' in text and case.get("shared"):
        labels.append("shared-context")
    if '"p":' in text and case["outer"] >= 1:
        labels.append("parent-context-entered-by-worker")
    if '"g":' in text and case["mode"] == "async":
        labels.append("nested-gather")
        if '"via": "run"' in text:
            labels.append("tasks-created-inside-run()")
    if case.get("closed_ctx") and case["outer"] == 0:
        labels.append("tasks-created-in-a-context()-block-left-before-they-run")
    if case.get("dest_yield"):
        labels.append("threads-also-switch-while-a-destination-is-called")
    nontrivial = holding(case) >= 2 and info["switches"] >= 2
    return nontrivial, sorted(set(labels))


def bodies(mode, depth=2):
    msg = st.sampled_from(["log_message", "action_log"]).map(lambda k: {"m": k})

    def level(d):
        if d <= 0:
            return st.lists(msg, max_size=2)
        below = level(d - 1)
        action = st.builds(lambda k, b: {"a": k, "body": b}, st.sampled_from(["with", "with", "finish", "finish_inside", "task"]), below)
        options = [msg, action, action]
        options.append(below.map(lambda b: {"s": b}))
        options.append(st.tuples(below, st.sampled_from(["context", "context", "run"])).map(lambda p: {"p": p[0], "how": p[1]}))
        if mode == "async":
            if d >= 2:
                options.append(st.tuples(st.lists(level(d - 2), min_size=2, max_size=2), st.sampled_from(["plain", "run"])).map(lambda p: {"g": p[0], "via": p[1]}))
        return st.lists(st.one_of(*options), min_size=1, max_size=3)

    return level(depth)


def strategy(mode):
    starts = ["bare", "preserve", "continue"] if mode == "thread" else ["inherit"]

    def worker():
        return st.builds(lambda start, pre, body: {"start": start, "pre": pre, "body": body}, st.sampled_from(starts), st.sampled_from([False, False, True]), bodies(mode))

    return st.builds(
        lambda outer, shared, dy, plans, workers: {"mode": mode, "outer": outer, "shared": shared, "dest_yield": dy and mode == "thread", "closed_ctx": dy and mode == "async", "plans": plans, "workers": workers},
        st.integers(0, 2),
        st.booleans(),
        st.booleans(),
        st.lists(sched.plans(max_segments=10, max_steps=6, workers=4, min_segments=3), min_size=2, max_size=4),
        st.lists(worker(), min_size=2, max_size=4),
    )


# ------------------------------------------------------------ cross effects


def check_cross(case):
    """
    One worker (thread or asyncio task) holds action A; another worker, inside its own action B (or none), then
    (a) finishes A, or (b) tries to leave A's block from its own context (directly, or by closing a generator that
    holds A open), or (c) enters and leaves A's context()/run() itself.  Neither worker's current_action() may change.
    """
    import asyncio
    import contextvars
    import threading

    from eliot import Logger, current_action, start_action
    from eliot._output import Destinations

    saved = Logger._destinations
    fresh = Destinations()
    Logger._destinations = fresh
    msgs = []
    fresh.add(lambda m: msgs.append(dict(m)))
    errors = []
    op = case["op"]
    how = case["how"]
    own = bool(case["own"])

    def holder_enter(A):
        if how == "with":
            A.__enter__()
            return lambda: A.__exit__(None, None, None)
        cm = A.context()
        cm.__enter__()
        return lambda: cm.__exit__(None, None, None)

    def generator_holding(A):
        def gen():
            with A:
                yield 1
                yield 2

        return gen()

    def other_side(A, held):
        """Runs in the second worker while the first holds A."""
        base = current_action()
        B = start_action(action_type="c05:own") if own else None
        leave_b = holder_enter(B) if own else None
        try:
            before = current_action()
            if before is not (B if own else base):
                errors.append("second worker: current_action() is %s after entering its own action" % conc._desc(before))
            try:
                if op == "finish":
                    A.finish()
                elif op == "exit":
                    A.__exit__(None, None, None)
                elif op == "close-generator":
                    held["gen"].close()
                elif op == "context":
                    with A.context():
                        if current_action() is not A:
                            errors.append("second worker inside A.context(): current_action() is %s" % conc._desc(current_action()))
                elif op == "run":
                    A.run(lambda: None)
            except Exception:
                # leaving a block from a foreign context is refused (contextvars raises ValueError): any refusal is
                # fine, as long as nothing leaks
                pass
            if current_action() is not before:
                errors.append("second worker: %s on the other worker's action changed its current_action() from %s to %s" % (op, conc._desc(before), conc._desc(current_action())))
        finally:
            if own:
                try:
                    leave_b()
                except Exception:
                    errors.append("second worker could not leave its own action afterwards")
                B.finish()

    def first_side_check(A, when):
        if current_action() is not A:
            errors.append("first worker %s: current_action() is %s, expected its own action" % (when, conc._desc(current_action())))

    try:
        if case["mode"] == "thread":
            def run():
                with start_action(action_type="c05:parent"):
                    A = start_action(action_type="c05:held")
                    held = {}
                    entered = threading.Event()
                    done = threading.Event()

                    def first():
                        if op == "close-generator":
                            held["gen"] = generator_holding(A)
                            next(held["gen"])
                            # the generator's with-block set this worker's context
                            first_side_check(A, "after advancing its generator")
                            entered.set()
                            done.wait(10)
                            first_side_check(A, "after the other worker acted")
                            return
                        leave = holder_enter(A)
                        first_side_check(A, "after entering")
                        entered.set()
                        done.wait(10)
                        first_side_check(A, "after the other worker acted")
                        try:
                            leave()
                        except Exception:
                            errors.append("first worker could not leave its own block afterwards")
                        if current_action() is not None:
                            errors.append("first worker after leaving: current_action() is %s, expected None (bare thread)" % conc._desc(current_action()))

                    def second():
                        entered.wait(10)
                        try:
                            other_side(A, held)
                        finally:
                            done.set()

                    t1 = threading.Thread(target=first)
                    t2 = threading.Thread(target=second)
                    t1.start(); t2.start(); t1.join(20); t2.join(20)
                    A.finish()

            contextvars.copy_context().run(run)
        else:
            async def main():
                with start_action(action_type="c05:parent") as parent:
                    A = start_action(action_type="c05:held")
                    held = {}
                    entered = asyncio.Event()
                    done = asyncio.Event()

                    async def first():
                        if op == "close-generator":
                            held["gen"] = generator_holding(A)
                            next(held["gen"])
                            first_side_check(A, "after advancing its generator")
                            entered.set()
                            await done.wait()
                            first_side_check(A, "after the other task acted")
                            return
                        leave = holder_enter(A)
                        first_side_check(A, "after entering")
                        entered.set()
                        await done.wait()
                        first_side_check(A, "after the other task acted")
                        try:
                            leave()
                        except Exception:
                            errors.append("first task could not leave its own block afterwards")
                        if current_action() is not parent:
                            errors.append("first task after leaving: current_action() is %s, expected the inherited parent" % conc._desc(current_action()))

                    async def second():
                        await entered.wait()
                        try:
                            if current_action() is not parent:
                                errors.append("second task does not start with the inherited action")
                            other_side(A, held)
                            if current_action() is not parent:
                                errors.append("second task afterwards: current_action() is %s, expected the inherited parent" % conc._desc(current_action()))
                        finally:
                            done.set()

                    await asyncio.gather(first(), second())
                    A.finish()

            loop = asyncio.new_event_loop()
            try:
                contextvars.copy_context().run(loop.run_until_complete, main())
            finally:
                loop.close()
    finally:
        Logger._destinations = saved
    require(not errors, "context-leak", lambda: "; ".join(errors[:4]))
    return {"messages": len(msgs)}


def classify_cross(case, info):
    return True, ["mode:" + case["mode"], "op:" + case["op"], "held-via:" + case["how"], "second-worker-in-own-action" if case["own"] else "second-worker-bare"]


def cross_runner(mod, facet, tier, seed, shard, nshards, stats):
    from ..core import enumerate_cases

    cases = []
    for mode in ("thread", "async"):
        for op in ("finish", "exit", "close-generator", "context", "run"):
            for how in ("with", "context"):
                for own in (0, 1):
                    if op == "exit" and how != "with":
                        continue
                    cases.append({"mode": mode, "op": op, "how": how, "own": own})
    stats.extra["enumerated_scenarios"] = len(cases)
    enumerate_cases(mod, facet, cases, shard, nshards, stats, exhaustive=True)


FACETS = [
    Facet("threads", lambda: strategy("thread"), check, classify, quick=300, thorough=40000),
    Facet("asyncio", lambda: strategy("async"), check, classify, quick=400, thorough=60000),
    Facet("cross-effects", None, check_cross, classify_cross, quick=1, thorough=1, quick_shards=1, thorough_shards=1, runner=cross_runner),
]
