"""
C05 - concurrent threads and coroutines never leak action context into each other.
"""

from hypothesis import strategies as st

from ..core import Facet, Violation, require, canon, setup_path
from .. import conc, invariants, sched

setup_path()

PROPERTY = "C05"
LEVEL = "exploration"
RULE = (
    "Structured concurrent programs: a parent nested 0-2 actions deep starts 2-4 workers - threads (started bare, through "
    "preserve_context, or through serialize_task_id/continue_task) or asyncio tasks (inheriting the creator's action, with "
    "nested gather, the sub-tasks optionally created inside R.run(...) of a fresh action R); workers may enter the context()/run() of the parent's own action or of one shared action, and may "
    "enter an action object the parent created; - each running a generated nest of with / context()+finish / finish-inside / start_task actions and "
    "messages, joined before the parent's action ends. Every program is executed under 2-4 generated plans (which worker "
    "runs how many steps: at logging-call boundaries for threads - in half of the thread cases additionally at the moment a "
    "(blocking) destination is handed a message - and at await points for coroutines; harness-owned scheduler). Oracles: in every worker at every step current_action() IS the top of the worker's own stack (None at "
    "the start of a bare thread, the creator's action at the start of a task), identical before being parked and after "
    "being resumed; the observed forest (independent reconstruction; siblings as sets, per-worker order kept) equals the "
    "model and is identical for every plan of the same program; C02's invariants hold on each run. Non-trivial: >= 2 "
    "workers that each hold an entered action while >= 2 context switches happen between them. Distinct = canonical JSON."
)
ASSUMPTIONS = [
    "sibling order among concurrent workers is schedule-dependent by design and not compared",
    "unstructured programs (work outliving the enclosing action) are not generated; one action object is used from several threads only at logging-call granularity (the scheduler runs one thread at a time)",
]


def check(case):
    shapes = []
    info = {"switches": 0, "steps": 0, "checks": 0, "plans": len(case["plans"])}
    for plan in case["plans"]:
        world, messages = conc.run_case_once(case, plan)
        require(not world.errors, "context-leak", lambda: "plan %r: %s" % (plan, "; ".join(world.errors[:4])))
        invariants.check_messages(messages, causal=True)
        got = conc.observed_shape(messages)
        want = conc.expected_shape(world)
        require(
            canon(got) == canon(want),
            "forest-differs-from-model",
            lambda: "plan %r\nobserved %s\nexpected %s" % (plan, canon(got)[:1500], canon(want)[:1500]),
        )
        shapes.append(canon(got))
        info["switches"] = max(info["switches"], world.scheduler_switches)
        info["steps"] += world.steps
        info["checks"] += world.ctx_switch_checks
    require(len(set(shapes)) == 1, "schedule-dependent-forest", lambda: "the parsed forest differs between plans: %s vs %s" % (shapes[0][:800], [s for s in shapes if s != shapes[0]][0][:800]))
    return info


def holding(case):
    """Number of workers whose body enters at least one action."""
    def has_action(nodes):
        return any("a" in n or "s" in n or ("g" in n and any(has_action(b) for b in n["g"])) for n in nodes)

    return sum(1 for w in case["workers"] if has_action(w["body"]))


def classify(case, info):
    labels = ["mode:" + case["mode"], "workers=%d" % len(case["workers"]), "outer=%d" % case["outer"], "switches=%d" % min(info["switches"], 8)]
    for w in case["workers"]:
        labels.append("start:" + w["start"])
        if w.get("pre"):
            labels.append("action-created-by-parent")
    text = canon(case["workers"])
    if '"s":' in text and case.get("shared"):
        labels.append("shared-context")
    if '"p":' in text and case["outer"] >= 1:
        labels.append("parent-context-entered-by-worker")
    if '"g":' in text and case["mode"] == "async":
        labels.append("nested-gather")
        if '"via": "run"' in text:
            labels.append("tasks-created-inside-run()")
    if case.get("dest_yield"):
        labels.append("threads-also-switch-while-a-destination-is-called")
    nontrivial = holding(case) >= 2 and info["switches"] >= 2
    return nontrivial, sorted(set(labels))


def bodies(mode, depth=2):
    msg = st.sampled_from(["log_message", "action_log"]).map(lambda k: {"m": k})

    def level(d):
        if d <= 0:
            return st.lists(msg, max_size=2)
        below = level(d - 1)
        action = st.builds(lambda k, b: {"a": k, "body": b}, st.sampled_from(["with", "with", "finish", "finish_inside", "task"]), below)
        options = [msg, action, action]
        options.append(below.map(lambda b: {"s": b}))
        options.append(st.tuples(below, st.sampled_from(["context", "context", "run"])).map(lambda p: {"p": p[0], "how": p[1]}))
        if mode == "async":
            if d >= 2:
                options.append(st.tuples(st.lists(level(d - 2), min_size=2, max_size=2), st.sampled_from(["plain", "run"])).map(lambda p: {"g": p[0], "via": p[1]}))
        return st.lists(st.one_of(*options), min_size=1, max_size=3)

    return level(depth)


def strategy(mode):
    starts = ["bare", "preserve", "continue"] if mode == "thread" else ["inherit"]

    def worker():
        return st.builds(lambda start, pre, body: {"start": start, "pre": pre, "body": body}, st.sampled_from(starts), st.sampled_from([False, False, True]), bodies(mode))

    return st.builds(
        lambda outer, shared, dy, plans, workers: {"mode": mode, "outer": outer, "shared": shared, "dest_yield": dy and mode == "thread", "plans": plans, "workers": workers},
        st.integers(0, 2),
        st.booleans(),
        st.booleans(),
        st.lists(sched.plans(max_segments=10, max_steps=6, workers=4, min_segments=3), min_size=2, max_size=4),
        st.lists(worker(), min_size=2, max_size=4),
    )


FACETS = [
    Facet("threads", lambda: strategy("thread"), check, classify, quick=300, thorough=6000),
    Facet("asyncio", lambda: strategy("async"), check, classify, quick=400, thorough=8000),
]
