"""
C15 - decorated generators keep their own action context and stay transparent.
"""

import contextvars
import threading
import gc
import sys

from hypothesis import strategies as st

from ..core import Facet, Violation, require, canon, setup_path
from .. import conc, invariants

setup_path()
from eliot import Logger, current_action, log_message, start_action  # noqa: E402
from eliot._generators import eliot_friendly_generator_function  # noqa: E402
from eliot._output import Destinations  # noqa: E402

PROPERTY = "C15"
LEVEL = "exploration"
RULE = (
    "1-3 generator bodies from a small DSL (log a message, `x = yield v`, an action spanning the nested body and its "
    "yields, try/except around yields that catches thrown exceptions and carries on, `return v`, `yield from` a nested "
    "decorated generator, starting a nested decorated generator and handing it to the driver), each wrapped with eliot_friendly_generator_function; each created under a generated driver context that may differ from the one it is first resumed in; a generated driver script of up to 14 "
    "steps, each choosing a generator, an operation (next, send(v), throw(E), close()) and the driver's own surrounding "
    "context (none, action A, action B, A>B) and how the step is executed (directly, inside a copy of the driver's "
    "contextvars.Context, or on another thread inside such a copy). Oracles: (1) inside every body at every step current_action() IS the top "
    "of that generator's own stack (base: the action current where it was first resumed); (2) after every driver step "
    "the driver's current_action() is what it was before; (3) differential transparency: the undecorated bodies driven "
    "by the same script produce the identical trace of yielded objects (identity), values received inside, exceptions "
    "caught inside, and exceptions / StopIteration (with its value) seen outside; (4) the reconstructed forest equals the "
    "model (a generator's actions and messages are children of its base action, messages belong to the innermost action "
    "the generator holds), C02 invariants hold and nothing unraisable is reported. Non-trivial: >= 2 generators resumed "
    "alternately from >= 2 different driver contexts while each holds an entered action, or a script using send/throw/"
    "close. Distinct = canonical JSON of the case."
)
ASSUMPTIONS = [
    "eliot.twisted.inline_callbacks is inlineCallbacks(eliot_friendly_generator_function(f)); Twisted is not installed, so only the wrapper it delegates to is exercised",
]


class Thrown(Exception):
    pass


VALS = [object(), "v1", 42, None, ("t", 1), 0.5, ValueError("an exception object sent as a plain value"), Thrown("value, not thrown")]
EXCS = [Thrown("t0"), Thrown("t1"), KeyError("k"), ValueError("v")]


class Env(object):
    def __init__(self, decorated):
        self.decorated = decorated
        self.trace = []
        self.errors = []
        self.ids = {}
        self.roots = []
        self.spawned = []
        self.shared = None
        self.shared_children = []
        self.in_shared = 0
        self.max_in_shared = 0
        self.layered = False

    def next_n(self, who):
        k = self.ids.get(who, 0) + 1
        self.ids[who] = k
        return "%s#%d" % (who, k)

    def expect(self, who, want, where):
        if not self.decorated:
            return
        got = current_action()
        if got is not want[0]:
            self.errors.append("%s %s: current_action() is %s, expected %s" % (who, where, conc._desc(got), conc._desc(want[0])))


def make_genfn(env, who, body, base_holder, may_spawn=True):
    """
    base_holder: [action, model_children] fixed at first resumption.
    """

    def run(nodes, stack):
        for node in nodes:
            op = node[0]
            top = stack[-1] if stack else base_holder
            if op == "log":
                env.expect(who, top, "before a message")
                n = env.next_n(who)
                if env.decorated:
                    model = {"kind": "msg", "n": n, "who": who}
                    (top[1] if top[0] is not None else env.roots).append(model)
                log_message(message_type="c15:m", n=n, who=who)
            elif op == "yield":
                env.expect(who, top, "before a yield")
                try:
                    x = yield VALS[node[1] % len(VALS)]
                except Thrown:
                    env.expect(who, top, "when an exception is thrown in at a yield")
                    raise
                env.trace.append((who, "recv", id(x) if x is not None else None))
                env.expect(who, top, "after a yield")
            elif op == "action":
                env.expect(who, top, "before starting an action")
                n = env.next_n(who)
                model = {"kind": "action", "n": n, "who": who, "children": [], "type": "c15:act"}
                if env.decorated:
                    (top[1] if top[0] is not None else env.roots).append(model)
                action = start_action(action_type="c15:act", n=n, who=who)
                entry = [action, model["children"]]
                with action:
                    stack.append(entry)
                    try:
                        r = yield from run(node[1], stack)
                    finally:
                        stack.pop()
                    if r is not None:
                        return r
                env.expect(who, top, "after leaving an action")
            elif op == "try":
                try:
                    r = yield from run(node[1], stack)
                    if r is not None:
                        return r
                except Thrown as e:
                    env.trace.append((who, "caught", EXCS.index(e) if e in EXCS else -1))
                    env.expect(who, top, "in the except block")
            elif op == "return":
                return ("RET", node[1] % len(VALS))
            elif op == "shared":
                # one Action object handed to every generator: each enters its context() around some yields
                shared = env.shared
                if any(entry[0] == "shared-marker" or (shared is not None and entry[0] is shared) for entry in stack):
                    # already inside it
                    r = yield from run(node[1], stack)
                    if r is not None:
                        return r
                    continue
                if shared is None:
                    # the undecorated reference run: same control flow, no actions
                    stack.append(["shared-marker", None])
                    try:
                        r = yield from run(node[1], stack)
                    finally:
                        stack.pop()
                    if r is not None:
                        return r
                    continue
                env.expect(who, top, "before entering the shared action's context")
                entry = [shared, env.shared_children]
                with shared.context():
                    stack.append(entry)
                    env.in_shared += 1
                    env.max_in_shared = max(env.max_in_shared, env.in_shared)
                    try:
                        r = yield from run(node[1], stack)
                    finally:
                        env.in_shared -= 1
                        stack.pop()
                    if r is not None:
                        return r
                env.expect(who, top, "after leaving the shared action's context")
            elif op == "spawn":
                # start a nested decorated generator here (first resumption inside this body) and hand it to the
                # driver, who resumes it later on its own; only outside this generator's own actions, so that the
                # nested generator never logs into an action that has already ended
                if stack or not may_spawn:
                    continue
                sub_base = [top[0], top[1]]
                sub_fn = make_genfn(env, who + ".sp", node[1], sub_base, may_spawn=True)
                sub = sub_fn()
                try:
                    out = next(sub)
                    env.trace.append((who, "spawned-yielded", VALS.index(out) if any(out is v for v in VALS) else "?"))
                    env.spawned.append([sub_fn, sub, sub_base, "validated"])
                except StopIteration:
                    env.trace.append((who, "spawned-finished"))
                env.expect(who, top, "after starting a nested generator")
            elif op == "yieldfrom":
                sub_base = [top[0], top[1]]
                # (a nested generator started inside one of this generator's actions must not hand generators to the
                # driver: they would log into that action after it has ended)
                sub = make_genfn(env, who + ".sub", node[1], sub_base, may_spawn=may_spawn and not stack)
                r = yield from sub()
                env.trace.append((who, "sub-returned", id(r) if r is not None else None))
                env.expect(who, top, "after yield from")
        return None

    def genfn():
        if env.decorated and base_holder[0] == "unset":
            a = current_action()
            base_holder[0] = a
            base_holder[1] = env.action_models.get(id(a), env.roots) if a is not None else env.roots
        r = yield from run(body, [])
        if r is not None:
            return VALS[r[1]]
        return None

    genfn.__name__ = "gen_" + who.replace(".", "_")
    if env.decorated:
        inner = eliot_friendly_generator_function(genfn)
        if not env.layered:
            return inner
        # an application decorator (functools.wraps) around the decorated generator function, itself a generator
        # function and decorated in turn
        import functools

        @functools.wraps(inner)
        def outer():
            first = current_action()
            try:
                r = yield from inner()
            finally:
                if current_action() is not first:
                    env.errors.append("%s: the wrapping generator sees current_action() %s when it is left, it was started in %s" % (who, conc._desc(current_action()), conc._desc(first)))
            return r

        return eliot_friendly_generator_function(outer)
    return genfn


def drive(case, decorated):
    saved = Logger._destinations
    fresh = Destinations()
    Logger._destinations = fresh
    msgs = []
    fresh.add(lambda m: msgs.append(dict(m)))
    env = Env(decorated)
    env.layered = bool(case.get("layered"))
    env.action_models = {}
    unraisable = []
    old_hook = sys.unraisablehook
    sys.unraisablehook = lambda u: unraisable.append("%r in %r" % (u.exc_value, u.object))

    def go():
        A = B = None
        if decorated:
            nA = env.next_n("drv")
            mA = {"kind": "action", "n": nA, "who": "drv", "children": [], "type": "drv:A"}
            env.roots.append(mA)
            A = start_action(action_type="drv:A", n=nA, who="drv")
            env.action_models[id(A)] = mA["children"]
            with A.context():
                nB = env.next_n("drv")
                mB = {"kind": "action", "n": nB, "who": "drv", "children": [], "type": "drv:B"}
                mA["children"].append(mB)
                B = start_action(action_type="drv:B", n=nB, who="drv")
                env.action_models[id(B)] = mB["children"]
        if decorated:
            # the action every generator may enter through context(): a child of A, finished at the very end
            with A.context():
                nS = env.next_n("drv")
                mS = {"kind": "action", "n": nS, "who": "drv", "children": [], "type": "drv:shared"}
                mA["children"].append(mS)
                env.shared = start_action(action_type="drv:shared", n=nS, who="drv")
                env.shared_children = mS["children"]
                env.action_models[id(env.shared)] = mS["children"]
        gens = []
        for i, body in enumerate(case["gens"]):
            holder = ["unset", None]
            fn = make_genfn(env, "g%d" % i, body, holder)
            gens.append([fn, None, holder])
        for gi_, where in enumerate(case.get("create_ctx") or []):
            # the generator object is created here, possibly under another action than the one it is started in
            if where is None or gi_ >= len(gens):
                continue
            pre = []
            if decorated:
                if where in (1, 3):
                    pre.append(A.context())
                if where in (2, 3):
                    pre.append(B.context())
            for cm in pre:
                cm.__enter__()
            try:
                gens[gi_][1] = gens[gi_][0]()
            finally:
                for cm in reversed(pre):
                    cm.__exit__(None, None, None)
        for step_index, step in enumerate(case["script"]):
            if decorated and case.get("finish_early") == step_index:
                # the driver finishes one of its actions while generators started under it are still suspended: their
                # context stays that (now finished) action
                B.finish()
            if env.spawned:
                gens.extend(env.spawned)
                del env.spawned[:]
            gi, op, arg, ctx = step[:4]
            gi %= max(1, len(gens))
            entry = gens[gi]
            cms = []
            if decorated:
                # a generator is created and first resumed in the same driver context
                if entry[1] is not None and entry[1] is not False:
                    pass
                if ctx in (1, 3):
                    cms.append(A.context())
                if ctx in (2, 3):
                    cms.append(B.context())
            for cm in cms:
                cm.__enter__()
            try:
                def do_step(step=step, gi=gi, op=op, arg=arg, entry=entry):
                    before = current_action()
                    if entry[1] is None:
                        entry[1] = entry[0]()
                    g = entry[1]
                    who = "g%d" % gi
                    try:
                        if op == "next":
                            out = next(g)
                            env.trace.append((who, "yielded", VALS.index(out) if any(out is v for v in VALS) else ("?", repr(out))))
                        elif op == "send":
                            v = VALS[arg % len(VALS)]
                            try:
                                out = g.send(v)
                            except TypeError as e:
                                if "just-started" in str(e):
                                    env.trace.append((who, "send-before-start"))
                                    return
                                raise
                            env.trace.append((who, "yielded", VALS.index(out) if any(out is v2 for v2 in VALS) else ("?", repr(out))))
                        elif op == "throw":
                            e = EXCS[arg % len(EXCS)]
                            out = g.throw(e)
                            env.trace.append((who, "yielded", VALS.index(out) if any(out is v2 for v2 in VALS) else ("?", repr(out))))
                        else:
                            r = g.close()
                            env.trace.append((who, "closed", r))
                    except StopIteration as s:
                        val = s.value
                        env.trace.append((who, "stop", VALS.index(val) if any(val is v for v in VALS) else ("?", repr(val))))
                    except BaseException as e:
                        env.trace.append((who, "raised", type(e).__name__, EXCS.index(e) if any(e is x for x in EXCS) else -1))
                    if decorated and entry[2][0] != "unset" and len(entry) == 3:
                        entry.append("validated")
                        if entry[2][0] is not before:
                            env.errors.append("generator g%d started under %s but its base context is %s" % (gi, conc._desc(before), conc._desc(entry[2][0])))
                    if decorated and current_action() is not before:
                        env.errors.append("driver step %r changed the driver's current_action() from %s to %s" % (step, conc._desc(before), conc._desc(current_action())))

                via = step[4] if (decorated and len(step) > 4) else 0
                if via == 0:
                    do_step()
                elif via == 1:
                    # the same driver context, but another contextvars.Context object for this resumption
                    contextvars.copy_context().run(do_step)
                else:
                    # ... and on another thread
                    box = []

                    def in_thread(ctx_=contextvars.copy_context()):
                        try:
                            ctx_.run(do_step)
                        except BaseException as e:  # noqa
                            box.append(e)

                    th = threading.Thread(target=in_thread)
                    th.start()
                    th.join()
                    if box:
                        raise box[0]
            finally:
                for cm in reversed(cms):
                    cm.__exit__(None, None, None)
        # finish whatever is still suspended, from the plain driver context
        gens.extend(env.spawned)
        del env.spawned[:]
        for entry in gens:
            if entry[1] is not None:
                try:
                    entry[1].close()
                    env.trace.append(("final-close", "ok"))
                except BaseException as e:
                    env.trace.append(("final-close", type(e).__name__))
        del gens[:]
        gc.collect(1)
        if decorated:
            env.shared.finish()
            B.finish()
            A.finish()
            if current_action() is not None:
                env.errors.append("current_action() is not None at the end")

    try:
        contextvars.copy_context().run(go)
        gc.collect(1)
    finally:
        Logger._destinations = saved
        sys.unraisablehook = old_hook
    return env, msgs, unraisable


def check(case):
    env_d, msgs, unraisable = drive(case, True)
    env_u, _, _ = drive(case, False)
    require(not env_d.errors, "context", lambda: "; ".join(env_d.errors[:4]))
    require(
        env_d.trace == env_u.trace,
        "not-transparent",
        lambda: "decorated and undecorated traces differ at step %d:\n decorated  %r\n undecorated %r"
        % (_first_diff(env_d.trace, env_u.trace), env_d.trace[: _first_diff(env_d.trace, env_u.trace) + 2][-3:], env_u.trace[: _first_diff(env_d.trace, env_u.trace) + 2][-3:]),
    )
    require(not unraisable, "unraisable", lambda: "unraisable exceptions reported: %r" % (unraisable[:2],))
    if case.get("finish_early") is None or case["finish_early"] >= len(case["script"]):
        # (with an action finished early, what is logged into it afterwards lies behind its end message: only the
        # context and transparency clauses are judged then)
        invariants.check_messages(msgs, causal=False)
        got = conc.observed_shape(msgs)
        want = sorted((conc.model_shape(r) for r in env_d.roots), key=canon)
        require(canon(got) == canon(want), "forest-differs-from-model", lambda: "observed %s\nexpected %s" % (canon(got)[:1500], canon(want)[:1500]))
    vias = set((s[4] if len(s) > 4 else 0) for s in case["script"])
    ops = set(s[1] for s in case["script"])
    ctxs = set(s[3] for s in case["script"])
    gens_used = set(s[0] % len(case["gens"]) for s in case["script"])
    return {"ops": sorted(ops), "ctxs": len(ctxs), "gens_used": len(gens_used), "trace": len(env_d.trace), "vias": sorted(vias), "max_in_shared": env_d.max_in_shared}


def _first_diff(a, b):
    for i, (x, y) in enumerate(zip(a, b)):
        if x != y:
            return i
    return min(len(a), len(b))


def holds_action(body):
    return any(n[0] == "action" or (n[0] in ("try", "yieldfrom", "spawn") and holds_action(n[1])) for n in body)


def classify(case, info):
    labels = ["gens=%d" % len(case["gens"]), "driver-contexts=%d" % info["ctxs"]] + ["op:" + o for o in info["ops"]]
    labels += ["resumed-via:" + {0: "same-Context-object", 1: "copied-Context", 2: "other-thread"}[v] for v in info.get("vias", [])]
    text = canon(case["gens"])
    if case.get("layered"):
        labels.append("decorated-again-below-a-functools.wraps-decorator")
    if case.get("finish_early") is not None and case["finish_early"] < len(case["script"]):
        labels.append("driver-action-finished-while-generators-are-suspended")
    if info.get("max_in_shared", 0) >= 2:
        labels.append("two-generators-inside-the-shared-action's-context-at-once")
    if any(c is not None for c in case.get("create_ctx") or []):
        labels.append("created-in-one-context-started-in-another")
    for k in ("yieldfrom", "try", "return", "action", "spawn", "shared"):
        if '"%s"' % k in text:
            labels.append("body:" + k)
    holding = sum(1 for g in case["gens"] if holds_action(g))
    nontrivial = (info["gens_used"] >= 2 and info["ctxs"] >= 2 and holding >= 2) or bool(set(info["ops"]) & {"send", "throw", "close"})
    return nontrivial, labels


def bodies(depth=3):
    leaf = st.one_of(
        st.just(["log"]),
        st.tuples(st.just("yield"), st.integers(0, 7)).map(list),
        st.tuples(st.just("yield"), st.integers(0, 7)).map(list),
    )

    def level(d):
        if d <= 0:
            return st.lists(leaf, min_size=1, max_size=3)
        below = level(d - 1)
        node = st.one_of(
            leaf,
            leaf,
            below.map(lambda b: ["action", b]),
            below.map(lambda b: ["action", b]),
            below.map(lambda b: ["try", b]),
            below.map(lambda b: ["yieldfrom", b]),
            below.map(lambda b: ["spawn", b]),
            below.map(lambda b: ["shared", b]),
        )
        tail = st.one_of(st.none(), st.none(), st.integers(0, 7).map(lambda v: ["return", v]))
        return st.tuples(st.lists(node, min_size=1, max_size=4), tail).map(lambda p: p[0] + ([p[1]] if p[1] else []))

    return level(depth)


def strategy():
    step = st.tuples(
        st.integers(0, 2),
        st.sampled_from(["next", "next", "next", "send", "send", "throw", "close"]),
        st.integers(0, 7),
        st.integers(0, 3),
        st.sampled_from([0, 0, 0, 1, 1, 2]),
    ).map(list)
    return st.integers(1, 3).flatmap(
        lambda n: st.builds(
            lambda fe, layered, wrap, created, script, gens: {"finish_early": fe, "layered": layered, "create_ctx": created, "script": script, "gens": [[["shared", g]] for g in gens] if wrap else gens},
            st.sampled_from([None, None, None, 1, 2, 3, 5]),
            st.sampled_from([False, False, True]),
            st.sampled_from([False, False, False, True]),
            st.lists(st.sampled_from([None, None, 0, 1, 2, 3]), min_size=n, max_size=n),
            st.lists(step, min_size=1, max_size=14),
            st.lists(bodies(), min_size=n, max_size=n),
        )
    )


FACETS = [Facet("drivers", strategy, check, classify, quick=4000, thorough=80000)]
