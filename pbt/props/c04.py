"""
C04 - the current action is scoped to its block and always restored on exit.
"""

from hypothesis import strategies as st

from ..core import Facet, Violation, require, canon, setup_path
from .. import programs as P
from .c01 import compare_forest

setup_path()

PROPERTY = "C04"
LEVEL = "exploration"
RULE = (
    "Generated programs over the scoping constructs: `with action`, `with action.context()` + finish outside or inside, "
    "action.run(f), re-entering context()/run() of any action already on the stack (the current one or an ancestor), "
    "start_task / as_task inside other actions, log_call, plain generators holding a `with` across a yield that are then "
    "closed / thrown into / resumed (LIFO), context-less messages; depth <= 6; exits by return, by exceptions caught j "
    "levels out, or by generator close. Facet 'raising-logger' additionally gives actions a custom ILogger whose write() "
    "raises on a generated subset of calls, so that start, in-action and end messages fail at arbitrary points. Oracle: "
    "identity checks at every boundary (inside: current_action() is the action; after leaving, by any path: it is the "
    "object observed immediately before entry; None at the end), and in facet 'scopes' the observed forest equals the "
    "model (every message/action is a child of the scope it was created in; start_task always a new tree; context-less "
    "messages are their own task, and a destination sees no current action while one is delivered). Non-trivial: depth >= 2 with a non-`with` construct below top level, or an exception "
    "crossing >= 2 scopes, or a re-entered ancestor. Facet after-finish (enumerated, 48 scenarios): context()/run() of an "
    "action that has already logged its end message (finished inside the block or before): current_action() is still "
    "it, messages / Action.log / child actions started there are still attributed to it, each child logs one start and "
    "one end, the previous context returns. Distinct = canonical JSON of the case."
)
ASSUMPTIONS = [
    "re-entering `with action:` on the same object, non-LIFO exits, and entering/leaving in different contextvars contexts are outside the quantifier",
    "each case runs inside contextvars.copy_context().run",
]


def check_scopes(case):
    from eliot import current_action

    seen = []

    def probe(message):
        # what a destination sees as the current action while a message is delivered
        seen.append(current_action())

    run = P.run_program(case["program"], sink="memory", destinations=lambda observer: [probe, observer])
    require(not run.errors, "api-raised", lambda: repr(run.errors))
    require(not run.context_errors, "context-not-restored", lambda: "; ".join(run.context_errors[:4]))
    compare_forest(run, run.messages)
    info = stats_info(run)
    if len(seen) == len(run.messages):
        lonely = 0
        for m, cur in zip(run.messages, seen):
            if m["task_level"] == [1] and "action_status" not in m:
                # logged with no current action: no scoping construct is open while it is delivered either
                lonely += 1
                require(cur is None, "context-while-no-action", lambda: "current_action() was %r while the context-less message %r was delivered" % (cur, m.get("message_type")))
        info["context-less-messages"] = lonely
    return info


def check_raising_logger(case):
    logger = P.RaisingLogger(case["mask"])
    run = P.run_program(case["program"], sink="memory", opts={"logger": logger})
    require(not run.errors, "api-raised", lambda: repr(run.errors))
    require(not run.context_errors, "context-not-restored", lambda: "; ".join(run.context_errors[:4]))
    info = stats_info(run)
    info["logger_calls"] = logger.calls
    info["faults_hit"] = len([k for k in logger.mask if k < logger.calls])
    return info


def stats_info(run):
    return dict((k, v) for k, v in run.stats.items() if k != "task_ids")


def classify(case, info):
    f = P.program_features(case["program"])
    labels = ["depth=%d" % min(f["depth"], 6)]
    for k in sorted(info):
        if k.startswith(("action:", "reenter")) or k in ("injected-fault-raised", "escaped-to-top"):
            labels.append(k)
    crossing = sum(v for k, v in info.items() if k.startswith("caught:"))
    if crossing:
        labels.append("exception-caught")
    non_with_below = f["depth"] >= 2 and any(k.startswith("action:") and k not in ("action:with",) for k in info)
    nontrivial = bool(non_with_below or info.get("reenter-ancestor") or (crossing and f["depth"] >= 2))
    if "faults_hit" in info:
        labels.append("faults-hit=%d" % min(info["faults_hit"], 4))
        nontrivial = nontrivial and info["faults_hit"] >= 1
    return nontrivial, labels


def scopes_strategy():
    return st.builds(lambda p: {"program": p}, P.programs(max_nodes=14, max_depth=6))


def raising_strategy():
    return st.builds(
        lambda mask, p: {"program": p, "mask": sorted(set(mask))},
        st.lists(st.integers(0, 25), min_size=1, max_size=6),
        P.programs(max_nodes=12, max_depth=5, kinds=["with", "finish", "finish_inside", "run", "task", "gen_close", "gen_next", "gen_throw", "typed"]),
    )


def check_after_finish(case):
    """
    `context()` / `run()` of an action are used although the action has logged its end message already (finished
    inside the block, or earlier): current_action() is still that action inside, what is started there is still
    attributed to it (same task, level below the action's), every new action logs one start and one end, and the
    previous context comes back afterwards.
    """
    from eliot import Logger, current_action, log_message, start_action
    from eliot._output import Destinations
    import contextvars

    saved = Logger._destinations
    fresh = Destinations()
    Logger._destinations = fresh
    msgs = []
    fresh.add(lambda m: msgs.append(dict(m)))
    problems = []

    def scenario():
        outer = start_action(action_type="c04:outer")
        with outer:
            a = start_action(action_type="c04:a")
            if case["when"] == "before":
                a.finish()

            def inside():
                if current_action() is not a:
                    problems.append("inside %s of the action current_action() is %r" % (case["how"], current_action()))
                if case["when"] == "inside":
                    a.finish()
                    if current_action() is not a:
                        problems.append("finishing the action inside its own block changed current_action()")
                for what in case["then"]:
                    if what == "msg":
                        log_message(message_type="c04:m")
                    elif what == "alog":
                        a.log(message_type="c04:m")
                    else:
                        with start_action(action_type="c04:child"):
                            log_message(message_type="c04:inner")

            if case["how"] == "context":
                with a.context():
                    inside()
            else:
                a.run(inside)
            if current_action() is not outer:
                problems.append("after the block current_action() is %r, not the enclosing action" % (current_action(),))
        if current_action() is not None:
            problems.append("current_action() is not None at the end")

    try:
        contextvars.copy_context().run(scenario)
    finally:
        Logger._destinations = saved
    require(not problems, "context-not-restored", lambda: "; ".join(problems))
    a_start = [m for m in msgs if m.get("action_type") == "c04:a" and m["action_status"] == "started"]
    require(len(a_start) == 1, "harness", "action a did not start once")
    uuid, prefix = a_start[0]["task_uuid"], a_start[0]["task_level"][:-1]
    later = [m for m in msgs if m.get("message_type") in ("c04:m", "c04:inner") or m.get("action_type") == "c04:child"]
    for m in later:
        require(
            m["task_uuid"] == uuid and m["task_level"][: len(prefix)] == prefix and len(m["task_level"]) > len(prefix),
            "not-a-child",
            lambda: "%s logged inside %s() of the (finished) action is at %s%r, not below the action at %s%r"
            % (m.get("message_type") or m.get("action_type"), case["how"], m["task_uuid"][:8], m["task_level"], uuid[:8], prefix),
        )
    children = [m for m in msgs if m.get("action_type") == "c04:child"]
    n_children = sum(1 for w in case["then"] if w == "child")
    statuses = sorted(m["action_status"] for m in children)
    require(
        statuses == sorted(["started", "succeeded"] * n_children),
        "start-end-count",
        lambda: "%d child actions started under the finished action logged statuses %r" % (n_children, statuses),
    )
    levels = [(m["task_uuid"], tuple(m["task_level"])) for m in msgs]
    require(len(set(levels)) == len(levels), "duplicate-level", "two messages share a level")
    return {"then": len(case["then"])}


def classify_after_finish(case, info):
    return bool(case["then"]), ["construct:" + case["how"], "finished:" + case["when"]] + sorted(set("then:" + w for w in case["then"]))


def after_finish_runner(mod, facet, tier, seed, shard, nshards, stats):
    import itertools
    from ..core import enumerate_cases

    cases = []
    for how in ("context", "run"):
        for when in ("inside", "before"):
            for n in (1, 2):
                for then in itertools.product(("msg", "alog", "child"), repeat=n):
                    cases.append({"how": how, "when": when, "then": list(then)})
    stats.extra["enumerated_scenarios"] = len(cases)
    enumerate_cases(mod, facet, cases, shard, nshards, stats, exhaustive=True)


FACETS = [
    Facet("scopes", scopes_strategy, check_scopes, classify, quick=1500, thorough=40000),
    Facet("raising-logger", raising_strategy, check_raising_logger, classify, quick=800, thorough=20000),
    Facet("after-finish", None, check_after_finish, classify_after_finish, quick=1, thorough=1, quick_shards=1, thorough_shards=1, runner=after_finish_runner),
]
