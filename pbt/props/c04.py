"""
C04 - the current action is scoped to its block and always restored on exit.
"""

from hypothesis import strategies as st

from ..core import Facet, Violation, require, canon, setup_path
from .. import programs as P
from .c01 import compare_forest

setup_path()

PROPERTY = "C04"
LEVEL = "exploration"
RULE = (
    "Generated programs over the scoping constructs: `with action`, `with action.context()` + finish outside or inside, "
    "action.run(f), re-entering context()/run() of any action already on the stack (the current one or an ancestor), "
    "start_task / as_task inside other actions, log_call, plain generators holding a `with` across a yield that are then "
    "closed / thrown into / resumed (LIFO), context-less messages; depth <= 6; exits by return, by exceptions caught j "
    "levels out, or by generator close. Facet 'raising-logger' additionally gives actions a custom ILogger whose write() "
    "raises on a generated subset of calls, so that start, in-action and end messages fail at arbitrary points. Oracle: "
    "identity checks at every boundary (inside: current_action() is the action; after leaving, by any path: it is the "
    "object observed immediately before entry; None at the end), and in facet 'scopes' the observed forest equals the "
    "model (every message/action is a child of the scope it was created in; start_task always a new tree; context-less "
    "messages are their own task, and a destination sees no current action while one is delivered). Non-trivial: depth >= 2 with a non-`with` construct below top level, or an exception "
    "crossing >= 2 scopes, or a re-entered ancestor. Distinct = canonical JSON of the case."
)
ASSUMPTIONS = [
    "re-entering `with action:` on the same object, non-LIFO exits, and entering/leaving in different contextvars contexts are outside the quantifier",
    "each case runs inside contextvars.copy_context().run",
]


def check_scopes(case):
    from eliot import current_action

    seen = []

    def probe(message):
        # what a destination sees as the current action while a message is delivered
        seen.append(current_action())

    run = P.run_program(case["program"], sink="memory", destinations=lambda observer: [probe, observer])
    require(not run.errors, "api-raised", lambda: repr(run.errors))
    require(not run.context_errors, "context-not-restored", lambda: "; ".join(run.context_errors[:4]))
    compare_forest(run, run.messages)
    info = stats_info(run)
    if len(seen) == len(run.messages):
        lonely = 0
        for m, cur in zip(run.messages, seen):
            if m["task_level"] == [1] and "action_status" not in m:
                # logged with no current action: no scoping construct is open while it is delivered either
                lonely += 1
                require(cur is None, "context-while-no-action", lambda: "current_action() was %r while the context-less message %r was delivered" % (cur, m.get("message_type")))
        info["context-less-messages"] = lonely
    return info


def check_raising_logger(case):
    logger = P.RaisingLogger(case["mask"])
    run = P.run_program(case["program"], sink="memory", opts={"logger": logger})
    require(not run.errors, "api-raised", lambda: repr(run.errors))
    require(not run.context_errors, "context-not-restored", lambda: "; ".join(run.context_errors[:4]))
    info = stats_info(run)
    info["logger_calls"] = logger.calls
    info["faults_hit"] = len([k for k in logger.mask if k < logger.calls])
    return info


def stats_info(run):
    return dict((k, v) for k, v in run.stats.items() if k != "task_ids")


def classify(case, info):
    f = P.program_features(case["program"])
    labels = ["depth=%d" % min(f["depth"], 6)]
    for k in sorted(info):
        if k.startswith(("action:", "reenter")) or k in ("injected-fault-raised", "escaped-to-top"):
            labels.append(k)
    crossing = sum(v for k, v in info.items() if k.startswith("caught:"))
    if crossing:
        labels.append("exception-caught")
    non_with_below = f["depth"] >= 2 and any(k.startswith("action:") and k not in ("action:with",) for k in info)
    nontrivial = bool(non_with_below or info.get("reenter-ancestor") or (crossing and f["depth"] >= 2))
    if "faults_hit" in info:
        labels.append("faults-hit=%d" % min(info["faults_hit"], 4))
        nontrivial = nontrivial and info["faults_hit"] >= 1
    return nontrivial, labels


def scopes_strategy():
    return st.builds(lambda p: {"program": p}, P.programs(max_nodes=14, max_depth=6))


def raising_strategy():
    return st.builds(
        lambda mask, p: {"program": p, "mask": sorted(set(mask))},
        st.lists(st.integers(0, 25), min_size=1, max_size=6),
        P.programs(max_nodes=12, max_depth=5, kinds=["with", "finish", "finish_inside", "run", "task", "gen_close", "gen_next", "gen_throw", "typed"]),
    )


FACETS = [
    Facet("scopes", scopes_strategy, check_scopes, classify, quick=1500, thorough=40000),
    Facet("raising-logger", raising_strategy, check_raising_logger, classify, quick=800, thorough=20000),
]
