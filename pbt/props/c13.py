"""
C13 - typed fields are serialized exactly once; serializer failures are contained.
"""

import contextvars
import copy

from hypothesis import strategies as st

from ..core import Facet, Violation, require, canon, setup_path
from .. import values as V

setup_path()
from eliot import fields as eliot_fields  # noqa: E402
from eliot import (  # noqa: E402
    ActionType,
    Field,
    Logger,
    MessageType,
    current_action,
    start_action,
)
from eliot._output import Destinations  # noqa: E402
from eliot import ValidationError as EliotValidationError  # noqa: E402

PROPERTY = "C13"
LEVEL = "fault_enumeration"
RULE = (
    "Generated scenarios: 0-2 enclosing plain actions, then 1-4 typed emissions (MessageType.log, the deprecated "
    "MessageType()(...).write(), ActionType used as with-block / explicit finish outside / explicit finish inside its "
    "context, with nested emissions in its body, failed typed actions, and direct Logger().write(dict, serializer|None)); "
    "each declared field has a counting wrapper around a pure, deliberately non-idempotent serializer (wrap, inc, str, "
    "len, keys, attribute of a custom object, identity); values incl. mutable containers and custom objects; undeclared "
    "extra fields; 0-2 global fields; x a fault mask: any subset of declared fields whose serializer raises (exception "
    "class from a table incl. asyncio.CancelledError and another BaseException-only class; fresh instances, or one stored "
    "instance raised again and again) or that are omitted, on start, success, in-action and stand-alone messages. Oracle: a delivered "
    "message has every declared field == f(v) with f called exactly once for that message, other fields untouched, global "
    "fields present, identical at both destinations; caller-held dicts/objects deep-equal before and after; on a fault the "
    "message (identified by a unique token) reaches no destination, exactly one eliot:traceback directly followed by one "
    "eliot:serialization_failure naming the token is delivered, both in the context current at that moment (or two "
    "stand-alone tasks when there is none), and the call returns. Facets concurrent(-enum): 2-3 threads log typed "
    "messages, some with failing serializers, through the shared default Logger under line-level schedules (generated "
    "plans and every single preemption), either each with its own type or all through one freshly defined type whose first "
    "uses race (then eliot/_validation.py is scheduled too; source-line and bytecode-instruction granularity): every failing message gets its own traceback + "
    "serialization_failure, every healthy one is delivered once with every field serialized exactly once. The typed facet "
    "also registers exception extractors (returning fields such as code/reason/detail) for the classes failing serializers raise. Non-trivial: a non-idempotent serializer on a value with "
    "f(f(v)) != f(v), or a fault on a start/end message. Distinct = canonical JSON of the case."
)
ASSUMPTIONS = [
    "serializers are pure; they raise Exception subclasses or BaseException subclasses used for control flow (asyncio.CancelledError), never KeyboardInterrupt/SystemExit",
    "MemoryLogger legitimately calls serializers more than once (validation); exactly-once is checked on the Logger -> destinations path",
    "the context of a report is identified through the public Action.serialize_task_id() of current_action() just before the call",
]


class Thing(object):
    def __init__(self, x):
        self.x = x

    def __eq__(self, other):
        return isinstance(other, Thing) and other.x == self.x

    def __repr__(self):
        return "Thing(%r)" % (self.x,)


class NoBool(Thing):
    """Like an array or a lazy query: asking for its truth value or length raises."""

    def __bool__(self):
        raise ValueError("the truth value of this object is ambiguous")

    def __len__(self):
        raise ValueError("len() of this object is not available")

    def __eq__(self, other):
        return isinstance(other, NoBool) and other.x == self.x

    def __repr__(self):
        return "NoBool(%r)" % (self.x,)


class SerFault(Exception):
    pass


class OtherFault(ValueError):
    pass


class ControlFlowFault(BaseException):
    """Not an Exception subclass (like asyncio.CancelledError out of `future.result()`)."""


import asyncio  # noqa: E402

FAULTS = [SerFault, OtherFault, KeyError, ZeroDivisionError, StopIteration, IndexError, asyncio.CancelledError, ControlFlowFault, EliotValidationError]

SERS = {
    "id": (lambda v: v, "any"),
    "wrap": (lambda v: [v], "any"),
    "str": (lambda v: str(v), "any"),
    "inc": (lambda v: v + 1, "int"),
    "len": (lambda v: len(v), "sized"),
    "keys": (lambda v: sorted(v), "dict"),
    "thing": (lambda v: v.x, "thing"),
    "nobool": (lambda v: v.x, "nobool"),
    # Field.for_types / fields(k=type): eliot's own pass-through serializer
    "ftypes": (lambda v: v, "native"),
}
NATIVE_CLASSES = [int, str, list, dict, type(None), bool, float]


def value_for(kind):
    if kind == "int":
        return st.integers(-5, 5)
    if kind == "sized":
        return st.one_of(st.text(max_size=4), st.lists(st.integers(0, 3), max_size=3))
    if kind == "dict":
        return st.dictionaries(st.sampled_from(["a", "b", "c"]), st.integers(0, 3), max_size=3)
    if kind == "thing":
        return st.integers(0, 9).map(lambda x: {V.TAG: "thing", "x": x})
    if kind == "nobool":
        return st.integers(0, 9).map(lambda x: {V.TAG: "nobool", "x": x})
    if kind == "native":
        return st.one_of(st.integers(-3, 3), st.text(max_size=3), st.lists(st.integers(0, 2), max_size=2), st.just({"k": [1]}), st.none())
    return st.one_of(st.integers(-3, 3), st.text(max_size=3), st.lists(st.integers(0, 2), max_size=2), st.just({"k": [1]}), st.none())


def decode(v):
    if isinstance(v, dict) and v.get(V.TAG) == "thing":
        return Thing(v["x"])
    if isinstance(v, dict) and v.get(V.TAG) == "nobool":
        return NoBool(v["x"])
    if isinstance(v, list):
        return [decode(x) for x in v]
    if isinstance(v, dict):
        return dict((k, decode(x)) for k, x in v.items())
    return v


class Recorder(object):
    def __init__(self):
        self.messages = []

    def __call__(self, m):
        self.messages.append(dict(m))


class Scenario(object):
    def __init__(self, case):
        self.case = case
        self.emissions = []  # records to verify afterwards
        self.tokens = 0
        self.returned_abnormally = []

    def token(self):
        self.tokens += 1
        return "N%dZ" % self.tokens

    def context_id(self):
        """(uuid, prefix) of the current action through public API, or None."""
        a = current_action()
        if a is None:
            return None
        tid = a.serialize_task_id().decode("ascii")
        uuid, level = tid.split("@")
        comps = [int(x) for x in level.split("/") if x]
        return (uuid, tuple(comps[:-1]))

    def build_fields(self, spec, token, rec):
        """spec: list of [key, ser, value, fault] -> (Field list, kwargs)."""
        fields = []
        kwargs = {}
        rec["declared"] = {}
        rec["calls"] = {}
        rec["snap"] = {}
        rec["held"] = {}
        rec["fault"] = False
        for key, ser, value, fault in spec:
            fn = SERS[ser][0]
            py = decode(value)
            rec["held"][key] = py
            rec["snap"][key] = copy.deepcopy(py)
            rec["calls"][key] = 0
            if ser == "ftypes":
                # built by eliot itself; only omission can be injected, calls cannot be counted
                fields.append(Field.for_types(key, NATIVE_CLASSES, "") if len(key) % 2 else eliot_fields(**{key: type(py)})[0])
                rec["calls"].pop(key, None)
                if fault is not None and fault[0] == "raise":
                    fault = None
            else:
                fields.append(Field(key, self._counting(fn, rec, key, fault), ""))
            if fault is not None and fault[0] == "omit":
                rec["fault"] = True
                rec["declared"][key] = None
                continue
            if fault is not None:
                rec["fault"] = True
                rec["raising"] = rec.get("raising", 0) + 1
            try:
                rec["declared"][key] = fn(copy.deepcopy(py))
            except Exception:
                rec["declared"][key] = None
            kwargs[key] = py
        fields.append(Field("tok", self._counting(lambda v: v, rec, "tok", None), ""))
        rec["calls"]["tok"] = 0
        rec["declared"]["tok"] = token
        kwargs["tok"] = token
        return fields, kwargs

    def _counting(self, fn, rec, key, fault):
        def ser(v):
            rec["calls"][key] += 1
            if fault is not None and fault[0] == "raise":
                cls = FAULTS[fault[1] % len(FAULTS)]
                if self.case.get("shared_exceptions"):
                    # a serializer like `lambda f: f.result()` re-raises the very same stored instance every time
                    store = self.__dict__.setdefault("_shared", {})
                    if cls not in store:
                        store[cls] = cls("stored failure")
                        self.shared_snapshots = getattr(self, "shared_snapshots", [])
                        self.shared_snapshots.append((store[cls], dict(store[cls].__dict__)))
                    raise store[cls]
                raise cls("serializer of %s fails" % key)
            return fn(v)

        return ser

    def call(self, what, fn, *a, **kw):
        try:
            return fn(*a, **kw)
        except (Exception, asyncio.CancelledError, ControlFlowFault) as e:
            self.returned_abnormally.append("%s raised %r" % (what, e))
            raise Violation("call-raised", "%s raised %r" % (what, e))

    def run_items(self, items):
        for item in items:
            getattr(self, "do_" + item["op"])(item)

    def do_tmsg(self, item):
        token = self.token()
        rec = {"token": token, "kind": "message", "extra": {}}
        fields, kwargs = self.build_fields(item["fields"], token, rec)
        for k, v in item.get("extra", {}).items():
            py = decode(v)
            kwargs["x_" + k] = py
            rec["extra"]["x_" + k] = copy.deepcopy(py)
        mt = MessageType("c13:msg", fields, "")
        rec["ctx"] = self.context_id()
        rec["kwargs_snapshot"] = copy.deepcopy(kwargs)
        self.emissions.append(rec)
        if item.get("deprecated"):
            msg = self.call("MessageType()", mt, **kwargs)
            self.call("Message.write", msg.write)
        else:
            self.call("MessageType.log", mt.log, **kwargs)
        rec["kwargs_after"] = kwargs

    def do_write(self, item):
        token = self.token()
        rec = {"token": token, "kind": "write", "extra": {}}
        fields, kwargs = self.build_fields(item["fields"], token, rec)
        mt = MessageType("c13:direct", fields, "")
        d = dict(kwargs)
        d["message_type"] = "c13:direct"
        d["task_uuid"] = "direct-%s" % token
        d["task_level"] = [1]
        d["timestamp"] = 1.0
        use_serializer = not item.get("no_serializer")
        if not use_serializer:
            rec["fault"] = False
            rec["declared"] = dict((k, v) for k, v in kwargs.items())
            rec["calls"] = dict((k, 1) for k in rec["calls"])  # not applicable
            rec["no_serializer"] = True
        rec["ctx"] = self.context_id()
        rec["kwargs_snapshot"] = copy.deepcopy(d)
        self.emissions.append(rec)
        self.call("Logger.write", Logger().write, d, mt._serializer if use_serializer else None)
        rec["kwargs_after"] = d

    def do_taction(self, item):
        tok_s, tok_e = self.token(), self.token()
        rec_s = {"token": tok_s, "kind": "start", "extra": {}}
        rec_e = {"token": tok_e, "kind": "success", "extra": {}}
        sf, skw = self.build_fields(item["start"], tok_s, rec_s)
        ef, ekw = self.build_fields(item["success"], tok_e, rec_e)
        at = ActionType("c13:act", sf, ef, "")
        style = item["style"]
        outer = self.context_id()
        rec_s["ctx"] = outer
        rec_s["kwargs_snapshot"] = copy.deepcopy(skw)
        rec_e["kwargs_snapshot"] = copy.deepcopy(ekw)
        self.emissions.append(rec_s)
        action = self.call("ActionType()", at, **skw)
        rec_s["kwargs_after"] = skw
        fails = item.get("raises")

        class Boom(Exception):
            pass

        def body():
            self.call("add_success_fields", action.add_success_fields, **ekw)
            self.run_items(item["body"])
            if fails:
                raise Boom("body fails")

        if fails:
            rec_e = None
        if style == "with":
            if rec_e is not None:
                rec_e["ctx"] = outer
                self.emissions.append(rec_e)
            try:
                with action:
                    body()
            except Boom:
                pass
        elif style == "finish_outside":
            if rec_e is not None:
                rec_e["ctx"] = outer
                self.emissions.append(rec_e)
            exc = None
            try:
                with action.context():
                    body()
            except Boom as e:
                exc = e
            self.call("finish", action.finish, exc)
        else:
            try:
                with action.context():
                    try:
                        body()
                    except Boom as e:
                        self.call("finish", action.finish, e)
                        raise
                    if rec_e is not None:
                        rec_e["ctx"] = self.context_id()
                        self.emissions.append(rec_e)
                    self.call("finish", action.finish)
            except Boom:
                pass
        if rec_e is not None:
            rec_e["kwargs_after"] = ekw

    def do_plain(self, item):
        with start_action(action_type="c13:ctx"):
            self.run_items(item["body"])


def check(case):
    saved = Logger._destinations
    fresh = Destinations()
    Logger._destinations = fresh
    d1, d2 = Recorder(), Recorder()
    fresh.add(d1, d2)
    globals_ = dict(("g%d" % i, v) for i, v in enumerate(case.get("globals", [])))
    if globals_:
        fresh.addGlobalFields(**globals_)
    sc = Scenario(case)
    from eliot import _errors as eliot_errors

    saved_registry = dict(eliot_errors._error_extraction.registry)
    for idx, names in (case.get("extractors") or {}).items():
        # a registered extractor for the exception class a failing serializer raises
        eliot_errors._error_extraction.registry[FAULTS[int(idx) % len(FAULTS)]] = lambda e, names=names: dict((n, "x:" + n) for n in names)
    try:
        items = case["items"]
        for _ in range(case.get("outer", 0)):
            items = [{"op": "plain", "body": items}]
        contextvars.copy_context().run(sc.run_items, items)
    finally:
        Logger._destinations = saved
        eliot_errors._error_extraction.registry.clear()
        eliot_errors._error_extraction.registry.update(saved_registry)
    msgs = d1.messages
    for exc, snap in getattr(sc, "shared_snapshots", []):
        require(dict(exc.__dict__) == snap, "caller-object-mutated", lambda: "the exception object a serializer raised was modified: %r -> %r" % (snap, exc.__dict__))
    require(
        [canon(_strip(m)) for m in msgs] == [canon(_strip(m)) for m in d2.messages],
        "destinations-differ",
        "the two destinations received different sequences",
    )
    info = {"faults": 0, "delivered": 0, "nonidem": 0, "fault_on_start_end": 0, "standalone_reports": 0}
    for rec in sc.emissions:
        token = rec["token"]
        mine = [m for m in msgs if m.get("tok") == token]
        reports = [i for i, m in enumerate(msgs) if m.get("message_type") == "eliot:serialization_failure" and token in str(m.get("message"))]
        # caller data untouched
        for key, snap in rec["snap"].items():
            require(rec["held"][key] == snap, "caller-object-mutated", lambda: "value logged for %r changed from %r to %r" % (key, snap, rec["held"][key]))
        if "kwargs_after" in rec:
            require(
                _eq(rec["kwargs_after"], rec["kwargs_snapshot"]),
                "caller-dict-mutated",
                lambda: "caller's dictionary changed: before %r after %r" % (rec["kwargs_snapshot"], rec["kwargs_after"]),
            )
        if not rec["fault"]:
            require(len(mine) == 1, "delivery-count", lambda: "%s message %s delivered %d times" % (rec["kind"], token, len(mine)))
            require(not reports, "spurious-failure-report", lambda: "serialization_failure logged for healthy message %s" % token)
            m = mine[0]
            info["delivered"] += 1
            for key, want in rec["declared"].items():
                require(
                    key in m and _eq(m[key], want),
                    "serialized-value",
                    lambda: "%s message %s: field %r delivered as %r, serializer output is %r" % (rec["kind"], token, key, m.get(key), want),
                )
                if not rec.get("no_serializer") and key in rec["calls"]:
                    require(
                        rec["calls"][key] == 1,
                        "serializer-call-count",
                        lambda: "%s message %s: serializer of %r called %d times" % (rec["kind"], token, key, rec["calls"][key]),
                    )
            for key, want in rec["extra"].items():
                require(key in m and _eq(m[key], want), "undeclared-field-changed", lambda: "extra field %r delivered as %r, logged %r" % (key, m.get(key), want))
            for key, want in globals_.items():
                require(m.get(key) == want, "global-field-missing", lambda: "global field %r missing/different in %s" % (key, token))
        else:
            info["faults"] += 1
            if rec["kind"] in ("start", "success"):
                info["fault_on_start_end"] += 1
            require(not mine, "faulty-message-delivered", lambda: "%s message %s was delivered although a serializer failed / a declared field is missing: %r" % (rec["kind"], token, mine))
            require(len(reports) == 1, "failure-report-count", lambda: "%d eliot:serialization_failure messages for %s message %s" % (len(reports), rec["kind"], token))
            i = reports[0]
            require(i >= 1 and msgs[i - 1].get("message_type") == "eliot:traceback", "traceback-missing", lambda: "no eliot:traceback directly before the serialization_failure of %s" % token)
            tb, sf = msgs[i - 1], msgs[i]
            run = 0
            while i - 1 - run >= 0 and msgs[i - 1 - run].get("message_type") == "eliot:traceback" and msgs[i - 1 - run]["task_uuid"] == tb["task_uuid"] and msgs[i - 1 - run]["task_level"][:-1] == tb["task_level"][:-1]:
                run += 1
            require(run == 1, "traceback-count", lambda: "%d eliot:traceback messages directly before the serialization_failure of %s message %s, expected exactly one" % (run, rec["kind"], token))
            if rec.get("raising", 0) >= 2:
                info["multi_fault"] = info.get("multi_fault", 0) + 1
            n_tb = sum(1 for k in (i - 2,) if k >= 0 and msgs[k].get("message_type") == "eliot:traceback" and False)
            ctx = rec["ctx"]
            for r, name in ((tb, "traceback"), (sf, "serialization_failure")):
                if ctx is None:
                    require(
                        r["task_level"] == [1],
                        "report-context",
                        lambda: "%s for %s message %s logged at %r, expected a stand-alone task" % (name, rec["kind"], token, r["task_level"]),
                    )
                    others = [m for m in msgs if m["task_uuid"] == r["task_uuid"]]
                    require(len(others) == 1, "report-context", lambda: "stand-alone %s shares its task_uuid with %d messages" % (name, len(others)))
                    info["standalone_reports"] += 1
                else:
                    require(
                        r["task_uuid"] == ctx[0] and tuple(r["task_level"][:-1]) == ctx[1],
                        "report-context",
                        lambda: "%s for %s message %s logged at %s%r, expected a direct child of %s%r"
                        % (name, rec["kind"], token, r["task_uuid"][:8], r["task_level"], ctx[0][:8], list(ctx[1])),
                    )
            for key, count in rec["calls"].items():
                require(count <= 1, "serializer-call-count", lambda: "serializer of %r called %d times for failing message %s" % (key, count, token))
        for key, ser, value, fault in _spec_of(rec, case):
            pass
    # non-idempotence coverage
    info["nonidem"] = _count_nonidem(case["items"])
    info["emissions"] = len(sc.emissions)
    return info


def _spec_of(rec, case):
    return []


def _count_nonidem(items):
    total = 0
    for item in items:
        for part in ("fields", "start", "success"):
            for key, ser, value, fault in item.get(part, []):
                fn = SERS[ser][0]
                try:
                    once = fn(decode(value))
                    twice = fn(once)
                    if not _eq(once, twice):
                        total += 1
                except Exception:
                    total += 1
        total += _count_nonidem(item.get("body", []))
    return total


def _eq(a, b):
    try:
        return a == b and type(a) is type(b) or (a == b and isinstance(a, (list, dict)) and canon_py(a) == canon_py(b))
    except Exception:
        return False


def canon_py(v):
    return repr(v)


def _strip(m):
    return dict((k, (repr(v) if isinstance(v, Thing) else v)) for k, v in m.items() if k != "timestamp")


def classify(case, info):
    labels = ["outer=%d" % case.get("outer", 0), "emissions=%d" % min(info["emissions"], 6)]
    if info["faults"]:
        labels.append("fault")
    if info["fault_on_start_end"]:
        labels.append("fault-on-start-or-end")
    if info["standalone_reports"]:
        labels.append("stand-alone-reports")
    if info.get("multi_fault"):
        labels.append("several-serializers-of-one-message-fail")
    if info["nonidem"]:
        labels.append("non-idempotent-serializer-hit")
    if case.get("globals"):
        labels.append("global-fields")
    if case.get("extractors") and info["faults"]:
        labels.append("extractor-registered-for-serializer-exception")
    if case.get("shared_exceptions") and info["faults"] >= 2:
        labels.append("same-exception-instance-raised-again")
    kinds = set()
    _kinds(case["items"], kinds)
    labels.extend(sorted("op:" + k for k in kinds))
    nontrivial = info["nonidem"] >= 1 or info["fault_on_start_end"] >= 1
    return bool(nontrivial), labels


def _kinds(items, out):
    for item in items:
        out.add(item["op"] + (":" + item["style"] if "style" in item else ""))
        _kinds(item.get("body", []), out)


# ---------------------------------------------------------------- strategy

KEYS = ["a", "b", "c", "d"]


def field_specs():
    def one(key):
        return st.sampled_from(sorted(SERS)).flatmap(
            lambda ser: st.tuples(
                st.just(key),
                st.just(ser),
                value_for(SERS[ser][1]),
                st.one_of(
                    st.none(),
                    st.none(),
                    st.none(),
                    st.none(),
                    st.tuples(st.just("raise"), st.integers(0, 8)).map(list),
                    st.just(["omit"]),
                ),
            ).map(list)
        )

    def all_fail(specs, picks):
        # several serializers of one message failing at once
        return [[k, ser, v, ["raise", picks[i % len(picks)]]] for i, (k, ser, v, _) in enumerate(specs)]

    plain = st.lists(st.sampled_from(KEYS), max_size=3, unique=True).flatmap(lambda ks: st.tuples(*[one(k) for k in ks]).map(list))
    return st.one_of(plain, plain, plain, plain, st.builds(all_fail, plain, st.lists(st.integers(0, 8), min_size=1, max_size=3)))


def items(depth):
    tmsg = st.builds(
        lambda f, extra, dep: {"op": "tmsg", "fields": f, "extra": extra, "deprecated": dep},
        field_specs(),
        st.dictionaries(st.sampled_from(["p", "q"]), st.one_of(st.integers(0, 3), st.lists(st.integers(0, 2), max_size=2)), max_size=2),
        st.booleans(),
    )
    write = st.builds(lambda f, nos: {"op": "write", "fields": f, "no_serializer": nos}, field_specs(), st.booleans())
    options = [tmsg, tmsg, write]
    if depth > 0:
        options.append(
            st.builds(
                lambda style, s, e, body, raises: {"op": "taction", "style": style, "start": s, "success": e, "body": body, "raises": raises},
                st.sampled_from(["with", "finish_outside", "finish_inside"]),
                field_specs(),
                field_specs(),
                st.lists(st.deferred(lambda: items(depth - 1)), max_size=2),
                st.sampled_from([False, False, False, True]),
            )
        )
        options.append(options[-1])
        options.append(st.builds(lambda body: {"op": "plain", "body": body}, st.lists(st.deferred(lambda: items(depth - 1)), max_size=2)))
    return st.one_of(*options)


def strategy():
    return st.builds(
        lambda shared, outer, globals_, extractors, its: {"shared_exceptions": shared, "outer": outer, "globals": globals_, "extractors": extractors, "items": its},
        st.sampled_from([False, False, True]),
        st.integers(0, 2),
        st.lists(st.integers(0, 5), max_size=2),
        st.one_of(
            st.just({}),
            st.dictionaries(st.sampled_from([str(i) for i in range(len(FAULTS))]), st.lists(st.sampled_from(["code", "reason", "detail", "tok"]), max_size=3, unique=True), max_size=3),
        ),
        st.lists(items(2), min_size=1, max_size=4),
    )


# -------------------------------------------------------------- concurrent


def check_concurrent(case):
    """Threads log typed messages (some with failing serializers) through the shared default Logger."""
    from .. import sched
    from ..core import HarnessError
    from eliot import _output

    saved = Logger._destinations
    with sched.cooperative_locks(_output):
        fresh = Destinations()
    Logger._destinations = fresh
    rec = Recorder()
    fresh.add(rec)
    plans_ = case["plan"]
    shared = bool(case.get("shared"))
    calls = {}

    def shared_ser(v):
        # value-driven: [k, fails, token]
        calls[v[2]] = calls.get(v[2], 0) + 1
        if v[1]:
            raise SerFault("serializer fails")
        return [v[0]]

    def tok_ser(v):
        calls["tok:" + v] = calls.get("tok:" + v, 0) + 1
        return v

    # one type definition used by all threads for the first time concurrently
    shared_type = MessageType("c13:conc", [Field("v", shared_ser, ""), Field("w", lambda v: [v], ""), Field("tok", tok_ser, "")], "")
    try:
        def worker(tid, specs):
            def run():
                for k, fails in enumerate(specs):
                    token = "T%dK%dZ" % (tid, k)
                    if shared:
                        shared_type.log(v=[k, fails, token], w=k, tok=token)
                        continue

                    def ser(v, fails=fails):
                        if fails:
                            raise SerFault("serializer fails")
                        return [v]

                    mt = MessageType("c13:conc", [Field("v", ser, ""), Field("tok", lambda v: v, "")], "")
                    mt.log(v=k, tok=token)

            return run

        s = sched.Scheduler(("eliot/_output.py", "eliot/_validation.py") if shared else ("eliot/_output.py",), plans_, opcodes=bool(case.get("opcodes")))
        s.run([worker(i, specs) for i, specs in enumerate(case["threads"])])
    finally:
        Logger._destinations = saved
    for wid, e in s.errors.items():
        if isinstance(e, HarnessError):
            raise e
        raise Violation("call-raised", "thread %d raised %r" % (wid, e))
    msgs = rec.messages
    faults = 0
    for tid, specs in enumerate(case["threads"]):
        for k, fails in enumerate(specs):
            token = "T%dK%dZ" % (tid, k)
            mine = [m for m in msgs if m.get("tok") == token]
            reports = [m for m in msgs if m.get("message_type") == "eliot:serialization_failure" and token in str(m.get("message"))]
            if fails:
                faults += 1
                require(not mine, "faulty-message-delivered", "message %s delivered although its serializer failed" % token)
                require(len(reports) == 1, "failure-report-count", lambda: "%d eliot:serialization_failure messages for %s (all messages: %r)" % (len(reports), token, [m.get("message_type") for m in msgs]))
            else:
                require(len(mine) == 1 and mine[0]["v"] == [k], "delivery", lambda: "message %s delivered %d times / wrong value: %r" % (token, len(mine), mine))
                require(not reports, "spurious-failure-report", "report for healthy message %s" % token)
                if shared:
                    require(mine[0].get("w") == [k], "delivery", lambda: "message %s: field w delivered as %r, serializer output is %r" % (token, mine[0].get("w"), [k]))
                    require(
                        calls.get(token) == 1 and calls.get("tok:" + token) == 1,
                        "serializer-call-count",
                        lambda: "message %s: serializers called %r/%r times" % (token, calls.get(token), calls.get("tok:" + token)),
                    )
    tbs = [m for m in msgs if m.get("message_type") == "eliot:traceback"]
    require(len(tbs) == faults, "traceback-count", lambda: "%d serializer failures but %d eliot:traceback messages" % (faults, len(tbs)))
    inside = s.switched_inside(("write", "send", "serialize", "log", "_compile"))
    return {"faults": faults, "switch_inside": len(inside), "switches": len(s.switches)}


def classify_concurrent(case, info):
    labels = ["threads=%d" % len(case["threads"]), "faults=%d" % min(info["faults"], 4), "switches=%d" % min(info["switches"], 6)]
    if info["switch_inside"]:
        labels.append("preempted-inside-write")
    if case.get("shared"):
        labels.append("one-type-shared-by-threads")
    labels.append("granularity:bytecode" if case.get("opcodes") else "granularity:line")
    return (info["faults"] >= 2 or bool(case.get("shared"))) and info["switch_inside"] >= 1, labels


def concurrent_strategy():
    from .. import sched

    return st.builds(
        lambda opc, shared, plan, threads: sched.with_granularity({"shared": shared, "plan": plan, "threads": threads}, opc),
        st.sampled_from([False, False, True]),
        st.booleans(),
        sched.plans(max_segments=10, max_steps=40, workers=3),
        st.lists(st.lists(st.booleans(), min_size=1, max_size=2), min_size=2, max_size=3),
    )


def concurrent_enum_runner(mod, facet, tier, seed, shard, nshards, stats):
    from ..core import enumerate_cases
    from .. import sched

    cases = []
    for threads in ([[True], [True]], [[True], [False, True]]):
        for plan in sched.single_preemption_plans(2, 90):
            cases.append({"plan": plan, "threads": threads})
    for threads in ([[False], [False]], [[False, True], [False]]):
        for plan in sched.single_preemption_plans(2, 70):
            cases.append({"shared": True, "plan": plan, "threads": threads})
    # bytecode granularity: first use of one type by two threads, thread 0 preempted before every instruction
    for k in range(0, 500 if tier == "thorough" else 300):
        cases.append({"opcodes": True, "shared": True, "plan": [[k, 0], [10**6, 1]], "threads": [[False], [False]]})
    stats.extra["enumerated_plans"] = len(cases)
    enumerate_cases(mod, facet, cases, shard, nshards, stats, exhaustive=True)


FACETS = [
    Facet("typed", strategy, check, classify, quick=2000, thorough=150000),
    Facet("concurrent", concurrent_strategy, check_concurrent, classify_concurrent, quick=200, thorough=10000),
    Facet("concurrent-enum", None, check_concurrent, classify_concurrent, quick=1, thorough=1, runner=concurrent_enum_runner),
]
