"""
C19 - the threaded writer passes every message to its destination in order, off-thread.
"""

import os
import queue
import sys
import threading
import time

from hypothesis import strategies as st

from ..core import Facet, Violation, HarnessError, require, canon, setup_path, VERIF
from .. import core as _core

setup_path()
_STUBS = os.path.join(VERIF, "pbt", "stubs")
try:
    import twisted  # noqa: F401

    REAL_TWISTED = not twisted.__file__.startswith(_STUBS)
except ImportError:
    sys.path.insert(1, _STUBS)
    REAL_TWISTED = False
from twisted.application.service import Service  # noqa: E402
from eliot.logwriter import ThreadedWriter  # noqa: E402
from eliot import Logger, log_message  # noqa: E402

PROPERTY = "C19"
LEVEL = "fault_enumeration"
RULE = (
    "1-3 start/stop cycles of one ThreadedWriter; per cycle 1-3 producer threads x 0-30 messages each (occasionally one burst "
    "of 10050-12000 messages against a blocked destination; in a third of the cases a second ThreadedWriter is alive all "
    "the time and must receive nothing offered to the first) (an order lock "
    "around 'record offer; call writer' defines the offered order); a failure mask over the wrapped destination's calls; a "
    "gate on the wrapped destination with which the case decides how many messages have been written when stopService is "
    "called (0..all) and releases the rest in generated steps; optionally a pause right after the service is marked "
    "stopped, optionally the freshly started writer thread is not scheduled until stop has been requested. Oracle: the wrapped destination is offered exactly the offered sequence, in order, each once, on one thread "
    "per cycle that is none of the callers; producers finish while the gate is closed (logging does not wait for output); "
    "the object returned by stopService completes only after the last offered message was passed on, for every gate "
    "position, and does complete once the gate opens; a masked failure loses only that call; after stop nothing more "
    "arrives (also not through eliot's own logging) and a later cycle behaves the same. Facets interleaved(-enum): "
    "producers, the writer thread (created through a scheduled stand-in for `threading`, cooperative queue) and the stop "
    "request run as workers of the scheduler over eliot/logwriter.py at source-line and at bytecode-instruction granularity, "
    "under generated plans and enumerated preemptions; every message whose offer returned before stopService was called must be written exactly once, "
    "per-producer order kept, and stopService's result must complete. Non-trivial: stop requested while "
    ">= 1 message is still queued, or a failure followed by further messages, or >= 2 producers. Distinct = canonical JSON."
)
ASSUMPTIONS = [
    "Twisted is not installed: twisted.application.service.Service and twisted.internet.threads.deferToThreadPool are small stand-ins (pbt/stubs/twisted) assumed to behave like Twisted's for these two calls",
    "a wall-clock wait is only used to diagnose 'blocked'; it counts as a violation only if opening the gate then unblocks the producers",
]


class Pool(object):
    """Reactor thread-pool double: one worker thread."""

    def __init__(self):
        self.q = queue.Queue()
        self.t = threading.Thread(target=self._run, daemon=True)
        self.t.start()

    def _run(self):
        while True:
            f = self.q.get()
            if f is None:
                return
            f()

    def callInThread(self, f):
        self.q.put(f)

    def stop(self):
        self.q.put(None)
        self.t.join(0.3 if _core.FAILING else 5)


class Reactor(object):
    def __init__(self):
        self.pool = Pool()

    def getThreadPool(self):
        return self.pool


class DestFault(Exception):
    pass


def dest_fault(k, text):
    """What a wrapped destination fails with on its call number k: the classes real ones raise, by turns."""
    import errno

    kind = k % 5
    if kind == 0:
        return DestFault(text)
    if kind == 1:
        return UnprintableDestFault(text)
    if kind == 2:
        # a file shared with a process that made it non-blocking: part of the line went out
        return BlockingIOError(errno.EAGAIN, "write could not complete without blocking", 7)
    if kind == 3:
        return OSError(errno.ENOSPC, "No space left on device")
    return ValueError("I/O operation on closed file.")


class UnprintableDestFault(DestFault):
    def __str__(self):
        raise RuntimeError("str() of this exception raises")

    __repr__ = __str__


class _GatedThreading(object):
    """Stands in for the `threading` module inside eliot.logwriter: new threads do not run until released."""

    def __init__(self):
        self.gate = threading.Event()
        self.gate.set()
        outer = self

        class Thread(threading.Thread):
            def run(self):
                outer.gate.wait(10)
                threading.Thread.run(self)

            def join(self, timeout=None):
                if timeout is not None:
                    # the case decides how slow the wrapped destination is (the gate): slower than any bounded wait
                    timeout = min(timeout, 0.005)
                return threading.Thread.join(self, timeout)

        self.Thread = Thread

    def __getattr__(self, name):
        return getattr(threading, name)


class GatedDest(object):
    def __init__(self, mask):
        self.cond = threading.Condition()
        self.allowed = 0
        self.received = []  # (message, thread ident)
        self.mask = set(mask)
        self.calls = 0
        self.waiting = 0

    def __call__(self, msg):
        with self.cond:
            self.waiting += 1
            self.cond.notify_all()
            while self.allowed <= len(self.received):
                self.cond.wait(10)
                if self.allowed <= len(self.received) and self.closed_forever:
                    break
            self.waiting -= 1
            k = self.calls
            self.calls += 1
            self.received.append((msg, threading.get_ident()))
            self.cond.notify_all()
        if k in self.mask:
            raise dest_fault(k, "wrapped destination fails on call %d" % k)

    closed_forever = False

    def allow(self, n):
        with self.cond:
            self.allowed = max(self.allowed, n)
            self.cond.notify_all()

    def wait_received(self, n, timeout=5.0):
        if _core.FAILING:
            timeout = min(timeout, 0.5)
        end = time.time() + timeout
        with self.cond:
            while len(self.received) < n:
                left = end - time.time()
                if left <= 0:
                    return False
                self.cond.wait(left)
        return True


def check(case):
    reactor = Reactor()
    dest = GatedDest(case["mask"])
    writer = ThreadedWriter(dest, reactor)
    total_offered = []
    info = {"cycles": 0, "queued_at_stop": 0, "failures_followed": 0, "producers": 0}
    main_ident = threading.get_ident()
    Service._verif_pause_after_stop = 0.0
    from eliot import logwriter as _lw

    gated = _GatedThreading()
    saved_threading = _lw.threading
    _lw.threading = gated
    bystander = None
    bystander_got = []
    try:
        if case.get("bystander"):
            # a second, independent writer (say an audit log) is alive all the time; nothing offered to the first one
            # may reach its destination
            bystander = ThreadedWriter(lambda m: bystander_got.append(m), reactor)
            bystander.startService()
        for cyc in case["cycles"]:
            info["cycles"] += 1
            base = len(total_offered)
            hold_reader = bool(cyc.get("hold_reader"))
            if hold_reader:
                # the freshly started writer thread is not scheduled until after stop was requested
                gated.gate.clear()
                info["reader_held"] = info.get("reader_held", 0) + 1
            writer.startService()
            offered = []
            order = threading.Lock()
            producer_idents = []

            def producer(pid, count):
                producer_idents.append(threading.get_ident())
                for i in range(count):
                    msg = {"cycle": info["cycles"], "p": pid, "i": i}
                    with order:
                        offered.append(msg)
                        writer(msg)

            threads = [threading.Thread(target=producer, args=(pid, n)) for pid, n in enumerate(cyc["producers"])]
            info["producers"] = max(info["producers"], len(threads))
            # the gate: how many messages may be written before stop is requested
            n_msgs = sum(cyc["producers"])
            gate0 = 0 if hold_reader else min(cyc["written_before_stop"], n_msgs)
            dest.allow(base + gate0)
            for t in threads:
                t.start()
            blocked = []
            for t in threads:
                t.join(3)
                if t.is_alive():
                    blocked.append(t)
            if blocked:
                dest.allow(10**9)
                for t in blocked:
                    t.join(5)
                if any(t.is_alive() for t in blocked):
                    raise HarnessError("producer threads stuck even with the gate open")
                raise Violation("logging-blocked-on-output", "producers did not finish while the wrapped destination was blocked (they did once it was released)")
            total_offered.extend(offered)
            require(dest.wait_received(base + gate0), "not-written", lambda: "only %d of the %d released messages reached the wrapped destination" % (len(dest.received) - base, gate0))
            info["queued_at_stop"] = max(info["queued_at_stop"], n_msgs - gate0)
            if cyc.get("pause"):
                Service._verif_pause_after_stop = 0.35
            d = writer.stopService()
            Service._verif_pause_after_stop = 0.0
            if hold_reader:
                time.sleep(0.01)
                require(
                    not d.called or n_msgs == 0,
                    "stop-completed-early",
                    lambda: "stopService completed while the writer thread had not run yet and %d offered messages were unwritten" % n_msgs,
                )
                gated.gate.set()
            require(hasattr(d, "wait"), "harness", "stopService did not return the deferred of the stand-in")
            # release the rest in steps; the deferred must not fire before everything was passed on
            released = gate0
            steps = list(cyc["release_steps"]) + [10**6]
            for step in steps:
                if released < n_msgs:
                    time.sleep(0.002)
                    require(
                        not d.called,
                        "stop-completed-early",
                        lambda: "stopService completed although only %d of %d offered messages had been passed to the destination" % (len(dest.received) - base, n_msgs),
                    )
                released = min(n_msgs, released + max(1, step))
                dest.allow(base + released)
                if not dest.wait_received(base + released, 5.0):
                    # nothing more arrives: either lost, or the reader died
                    break
                if released >= n_msgs:
                    break
            fired = d.wait(0.7 if _core.FAILING else 5.0)
            got = [m for m, _ in dest.received[base:]]
            require(
                got == offered,
                "sequence",
                lambda: "cycle %d: offered %d messages, destination was passed %d: first difference at %d (offered %r, passed %r)"
                % (info["cycles"], len(offered), len(got), _first_diff(offered, got), offered[_first_diff(offered, got) : _first_diff(offered, got) + 2], got[_first_diff(offered, got) : _first_diff(offered, got) + 2]),
            )
            require(fired, "stop-never-completed", "stopService's result did not complete within 5s after everything was written")
            require(d.failure is None, "stop-failed", lambda: "stopService's result failed with %r" % (d.failure,))
            idents = set(i for _, i in dest.received[base:])
            require(len(idents) <= 1, "several-writer-threads", "messages of one cycle were written by %d threads" % len(idents))
            if idents:
                wid = list(idents)[0]
                require(wid != main_ident and wid not in producer_idents, "written-on-caller-thread", "the wrapped destination was called on a caller's thread")
            # after stop nothing more arrives
            count = len(dest.received)
            log_message(message_type="c19:after-stop")
            time.sleep(0.005)
            require(len(dest.received) == count, "delivered-after-stop", "a message logged after stopService reached the wrapped destination")
            fails = [k for k in dest.mask if base <= k < len(dest.received) - 1]
            info["failures_followed"] += len(fails)
        if bystander is not None:
            db = bystander.stopService()
            require(db.wait(0.7 if _core.FAILING else 5.0), "stop-never-completed", "the second writer's stopService did not complete")
            stray = [m for m in bystander_got if "cycle" in m]
            require(not stray, "delivered-to-another-writer", lambda: "messages offered to one ThreadedWriter reached the destination of another: %r" % (stray[:3],))
            info["bystander"] = True
    finally:
        if bystander is not None:
            try:
                if bystander.running:
                    bystander.stopService()
                bt = getattr(bystander, "_thread", None)
                if bt is not None and bt.is_alive():
                    for _ in range(3):
                        bystander._queue.put(_lw._STOP)
                    bt.join(1)
                Logger._destinations.remove(bystander)
            except Exception:
                pass
        gated.gate.set()
        _lw.threading = saved_threading
        Service._verif_pause_after_stop = 0.0
        dest.closed_forever = True
        dest.allow(10**9)
        try:
            if writer.running:
                writer.stopService()
        except Exception:
            pass
        # never leave the reader thread behind (a broken tree may have lost its stop sentinel)
        t = getattr(writer, "_thread", None)
        if t is not None and t.is_alive():
            try:
                from eliot import logwriter as _lw

                for _ in range(3):
                    writer._queue.put(_lw._STOP)
                t.join(1)
            except Exception:
                pass
        reactor.pool.stop()
        # make sure the writer is not left registered
        try:
            Logger._destinations.remove(writer)
        except ValueError:
            pass
    return info


def _first_diff(a, b):
    for i, (x, y) in enumerate(zip(a, b)):
        if x != y:
            return i
    return min(len(a), len(b))


def classify(case, info):
    labels = ["cycles=%d" % info["cycles"], "producers=%d" % info["producers"]]
    if info["queued_at_stop"]:
        labels.append("stop-with-queued-messages")
    if info["failures_followed"]:
        labels.append("failure-followed-by-messages")
    if any(c.get("pause") for c in case["cycles"]):
        labels.append("pause-after-marked-stopped")
    if info.get("reader_held"):
        labels.append("writer-thread-start-delayed")
    if info.get("bystander"):
        labels.append("second-writer-alive")
    nontrivial = bool(info["queued_at_stop"] or info["failures_followed"] or info["producers"] >= 2)
    return nontrivial, labels


def strategy():
    cycle = st.builds(
        lambda producers, wbs, steps, pause, hold: {"producers": producers, "written_before_stop": wbs, "release_steps": steps, "pause": pause, "hold_reader": hold},
        st.one_of(st.lists(st.integers(0, 30), min_size=1, max_size=3), st.lists(st.integers(0, 30), min_size=1, max_size=3), st.sampled_from([[10050], [12000, 3]])),
        st.integers(0, 40),
        st.lists(st.integers(1, 20), max_size=3),
        st.sampled_from([False, False, False, False, False, True]),
        st.sampled_from([False, False, False, True]),
    )
    return st.builds(
        lambda by, mask, cycles: {"bystander": by, "mask": sorted(set(mask)), "cycles": cycles},
        st.sampled_from([False, False, True]),
        st.lists(st.integers(0, 60), max_size=6),
        st.lists(cycle, min_size=1, max_size=3),
    )


# ------------------------------------------------------------ interleavings


def check_interleaved(case):
    """
    Producers, the writer thread and the stop request as workers of the
    line-level scheduler (eliot/logwriter.py): the writer thread is created
    through a scheduled `threading` stand-in and the queue is cooperative.
    """
    from .. import sched
    from eliot import logwriter as lw

    s = sched.Scheduler(("eliot/logwriter.py",), case["plan"], grace=1.0, total_timeout=30.0, opcodes=bool(case.get("opcodes")))
    # whatever blocking primitives the module uses are made cooperative (it may be a modified tree)
    saved = {}
    for name, repl in (("threading", sched.scheduled_threading(s)), ("SimpleQueue", sched.CoopQueue), ("Queue", sched.CoopQueue), ("queue", sched.queue_module())):
        if hasattr(lw, name):
            saved[name] = getattr(lw, name)
            setattr(lw, name, repl)
    sched.CoopQueue._scheduler = s
    reactor = Reactor()
    received = []
    mask = set(case["mask"])
    calls = [0]

    def dest(msg):
        k = calls[0]
        calls[0] += 1
        received.append((msg, threading.get_ident()))
        if k in mask:
            raise dest_fault(k, "fails on call %d" % k)

    clock = [0]

    def tick():
        clock[0] += 1
        return clock[0]

    offered_done = {}
    done_flags = []
    box = {}
    try:
        writer = ThreadedWriter(dest, reactor)

        def main():
            writer.startService()
            box["first_reader"] = getattr(writer, "_thread", None)
            box["started"] = True
            if case["wait_for_producers"]:
                s.wait_for(lambda: len(done_flags) == len(case["producers"]), ("wait-producers", 0, "main"))
            box["stop_tick"] = tick()
            box["d"] = writer.stopService()
            if case.get("second_cycle"):
                # a second start/stop cycle of the same writer, once the first one is over
                reader = box.get("first_reader")
                s.wait_for(
                    lambda: len(done_flags) == len(case["producers"]) and (reader is None or getattr(reader, "_wid", None) is None or s.state.get(reader._wid) == "done"),
                    ("wait-first-cycle", 0, "main"),
                )
                # the first cycle's writer thread has ended: the first stop completes now (on the reactor's pool thread)
                if not box["d"].wait(3.0):
                    return
                writer.startService()
                writer(("c2", 0))
                writer(("c2", 1))
                box["d2"] = writer.stopService()

        def producer(pid, count):
            def run():
                s.wait_for(lambda: box.get("started"), ("wait-start", 0, "producer"))
                for i in range(count):
                    msg = (pid, i)
                    writer(msg)
                    offered_done[msg] = tick()
                done_flags.append(pid)

            return run

        stuck = None
        try:
            s.run([main] + [producer(p, c) for p, c in enumerate(case["producers"])])
        except HarnessError as he:
            # a thread the module started never ends (it waits for messages for ever): judge what was observed
            # first, report the stuck schedule as a harness error only if nothing else is wrong
            if "deadlock among scheduled workers" not in str(he):
                raise
            stuck = he
        for wid, e in s.errors.items():
            if isinstance(e, HarnessError):
                raise e
            raise Violation("thread-raised", "worker %d raised %r" % (wid, e))
        d = box.get("d")
        require(d is not None, "harness", "stopService was not reached")
        fired = d.wait(3.0)
        got = [m for m, _ in received]
        must = [m for m, t in offered_done.items() if t < box["stop_tick"]]
        missing = [m for m in must if m not in got]
        require(not missing, "lost", lambda: "messages %r were offered before stopService was called but never reached the destination (got %r)" % (missing, got))
        require(len(set(got)) == len(got), "duplicated", lambda: "destination saw a message twice: %r" % (got,))
        for pid in range(len(case["producers"])):
            seq = [i for (p_, i) in got if p_ == pid]
            require(seq == sorted(seq), "order", lambda: "producer %d's messages arrived as %r" % (pid, seq))
        require(fired, "stop-never-completed", "stopService's result did not complete")
        require(d.failure is None, "stop-failed", repr(d.failure))
        if case.get("second_cycle"):
            first = [(m, i) for m, i in received if m[0] != "c2"]
            second = [(m, i) for m, i in received if m[0] == "c2"]
            d2 = box.get("d2")
            require(d2 is not None, "stop-never-completed", "the first stopService never completed, the second cycle could not start")
            fired2 = d2.wait(3.0)
            require([m for m, _ in second] == [("c2", 0), ("c2", 1)], "sequence", lambda: "second cycle: offered [('c2', 0), ('c2', 1)], destination was passed %r" % ([m for m, _ in second],))
            require(fired2, "stop-never-completed", "the second cycle's stopService did not complete")
            require(len(set(i for _, i in second)) <= 1, "several-writer-threads", "second cycle written by %d threads" % len(set(i for _, i in second)))
            # messages offered while or after the first stop was requested may stay queued and be written by the
            # second cycle's thread: the single-thread clause is judged on what was offered before the stop request
            idents = set(i for m, i in first if m in must)
        else:
            idents = set(i for _, i in received)
        require(len(idents) <= 1, "several-writer-threads", "written by %d threads" % len(idents))
    finally:
        for name, value in saved.items():
            setattr(lw, name, value)
        sched.CoopQueue._scheduler = None
        reactor.pool.stop()
        try:
            Logger._destinations.remove(writer)
        except Exception:
            pass
    inside = s.switched_inside(("__call__", "_reader", "stopService", "startService"))
    return {"switches": len(s.switches), "switch_inside": len(inside), "offered": len(offered_done), "before_stop": len(must), "stuck": stuck is not None}


def classify_interleaved(case, info):
    labels = ["producers=%d" % len(case["producers"]), "switches=%d" % min(info["switches"], 8), "stop-waits" if case["wait_for_producers"] else "stop-races-producers"]
    if info["switch_inside"]:
        labels.append("preempted-inside-writer-code")
    labels.append("granularity:bytecode" if case.get("opcodes") else "granularity:line")
    if case.get("second_cycle"):
        labels.append("second-start/stop-cycle")
    if info.get("stuck"):
        # nothing observable was wrong, but a thread started by the writer never ended (it keeps waiting for messages)
        labels.append("inconclusive:a-writer-thread-never-ended")
    return info["switch_inside"] >= 1 and info["offered"] >= 2, labels


def interleaved_strategy():
    from .. import sched

    return st.builds(
        lambda second, opc, wait, mask, plan, producers: {"second_cycle": second, "opcodes": opc, "wait_for_producers": wait, "mask": sorted(set(mask)), "plan": plan, "producers": producers},
        st.sampled_from([False, False, True]),
        st.sampled_from([False, False, True]),
        st.booleans(),
        st.lists(st.integers(0, 6), max_size=2),
        sched.plans(max_segments=12, max_steps=14, workers=4, min_segments=2),
        st.lists(st.integers(1, 3), min_size=1, max_size=2),
    )


def interleaved_enum_runner(mod, facet, tier, seed, shard, nshards, stats):
    from ..core import enumerate_cases
    from .. import sched

    cases = []
    # workers: 0 = main (start, stop), 1 = producer, 2 = the writer thread (spawned by startService)
    for wait in (True, False):
        for a in range(3):
            for b in range(3):
                if a == b:
                    continue
                for k in range(0, 26):
                    cases.append({"wait_for_producers": wait, "mask": [], "plan": [[k, a], [10**6, b]], "producers": [2]})
                    if k % 2 == 0:
                        cases.append({"wait_for_producers": wait, "mask": [0], "plan": [[k, a], [4, b], [10**6, 3 - a - b]], "producers": [2]})
    # the stop request racing a producer that is inside its offer: main starts the service (m steps), the producer
    # runs k steps, main stops the service, the writer thread drains and ends, the producer resumes
    for m in range(1, 15):
        for k in range(0, 12):
            cases.append({"wait_for_producers": False, "mask": [], "plan": [[m, 0], [k, 1], [10**6, 0], [10**6, 2], [10**6, 1]], "producers": [2]})
            cases.append({"second_cycle": True, "wait_for_producers": False, "mask": [], "plan": [[m, 0], [k, 1], [10**6, 0], [10**6, 2], [10**6, 1]], "producers": [2]})
    for m in range(0, 80, 3 if tier == "thorough" else 6):
        for k in range(0, 45, 1 if tier == "thorough" else 2):
            cases.append({"opcodes": True, "wait_for_producers": False, "mask": [], "plan": [[m, 0], [k, 1], [10**6, 0], [10**6, 2], [10**6, 1]], "producers": [2]})
    # bytecode granularity: two producers and the writer thread; producer 1 preempted at every instruction of its
    # first offer while producer 2 offers and the writer drains, then producer 1 resumes
    for k in range(0, 40):
        for j in (6, 14, 30):
            cases.append({"opcodes": True, "wait_for_producers": True, "mask": [], "plan": [[2, 0], [k, 1], [j, 2], [60, 3], [10**6, 1]], "producers": [2, 2]})
    stats.extra["enumerated_plans"] = len(cases)
    enumerate_cases(mod, facet, cases, shard, nshards, stats, exhaustive=True)


FACETS = [
    Facet("cycles", strategy, check, classify, quick=300, thorough=8000),
    Facet("interleaved", interleaved_strategy, check_interleaved, classify_interleaved, quick=300, thorough=10000),
    Facet("interleaved-enum", None, check_interleaved, classify_interleaved, quick=1, thorough=1, runner=interleaved_enum_runner),
]
