"""
C12 - startup buffering and (un)registration lose and duplicate no message.

Facet 'history': a Hypothesis RuleBasedStateMachine over a fresh Destinations
(log bursts, add, remove, add_global_fields) against a reference model; the
executed rule sequence is recorded as pure data and is the replay case.
Facet 'handover': line-level schedules of logging threads against the thread
performing the first add (see pbt/sched.py).
"""

import os

from hypothesis import strategies as st

from ..core import Facet, Violation, require, canon, setup_path

setup_path()
from eliot import Logger, log_message, start_action  # noqa: E402
from eliot import _output  # noqa: E402
from eliot._output import Destinations  # noqa: E402

PROPERTY = "C12"
LEVEL = "exploration"
RULE = (
    "Facet history: rule-based stateful generation (Hypothesis RuleBasedStateMachine; the executed rule sequence is the "
    "shrinkable, replayable case) over a fresh Destinations: log(burst n) with n from {1..5, 995..1005, 1500, 2001, 2500} (several bursts add up, so the buffer wraps more than once) inside or "
    "outside an action, add(1-3 new destinations), add(a distinct destination object that compares equal to a registered one and "
    "feeds the same sink, like two FileDestinations on one stream), remove(registered), add_global_fields(k=v) incl. re-setting a key; "
    "after every rule each destination's received list is compared with a reference model (bounded FIFO of 1000, "
    "registration list, global-field dict): buffered messages exactly once, in order, ahead of later ones, only to the "
    "first add's destinations, each delivered message carrying all global fields set before its delivery (latest value), "
    "nothing after removal. Facet handover: interleavings at source-line and bytecode-instruction granularity (generated plans; complete "
    "enumeration of single-preemption schedules) of 1-2 logging threads against the thread doing the first add(d1, d2[, d3]); "
    "oracle: every logged message received exactly once by every destination, also the ones logged sequentially afterwards; in a "
    "third of the cases the raced call is a later add_destinations (first add done beforehand): its destinations get nothing logged "
    "before, nothing twice, and everything logged after it returned. Non-trivial (history): >= 2 adds, a remove "
    "and buffered messages, or > 1000 buffered; (handover): a schedule that switches threads inside send or add. "
    "Distinct = canonical JSON of the case."
)
ASSUMPTIONS = [
    "under concurrency loss, duplication and per-thread / buffered-first order are asserted; order violations across the first hand-over are the open known finding F17",
    "pausing a thread at a `line` trace event does not change what the traced code computes",
]

BURSTS = [1, 1, 2, 3, 5, 995, 999, 1000, 1001, 1005, 1500, 1, 2, 2001, 2500]


class Model(object):
    """Reference model of the statement."""

    def __init__(self):
        self.buffer = []
        self.any_added = False
        self.dests = []  # registered destination ids, in order
        self.received = {}  # id -> list of expected messages (n, globals-snapshot)
        self.globals = {}
        self.next_dest = 0
        self.n = 0


def run_history(ops):
    """
    Execute a list of operations against a fresh Destinations and the model.
    ops: ["log", burst_index, in_action] | ["add", count] | ["twin", k] | ["remove", k] | ["global", key, value]
    """
    saved_dest = Logger._destinations
    fresh = Destinations()
    Logger._destinations = fresh
    model = Model()
    real = {}  # id -> list of received dicts
    dest_objs = {}
    info = {"adds": 0, "removes": 0, "buffered_max": 0, "over_cap": False, "globals": 0, "logs": 0, "buffered_then_added": False, "global_reset": False}
    try:
        for step, op in enumerate(ops):
            kind = op[0]
            if kind == "log":
                count = BURSTS[op[1] % len(BURSTS)]
                in_action = bool(op[2])
                # messages logged inside an action: start + count messages + end
                if in_action:
                    with start_action(action_type="c12:act", n=model.n):
                        _model_log(model, 1)
                        for _ in range(count):
                            log_message(message_type="c12:m", n=model.n)
                            _model_log(model, 1)
                        # the end message is logged on exit
                    _model_log(model, 1, tag="end")
                else:
                    for _ in range(count):
                        if op[1] % 5 == 4:
                            # the message has a field of its own named like a global field: the global value is
                            # what every delivered message carries
                            log_message(message_type="c12:m", n=model.n, g0="own")
                        else:
                            log_message(message_type="c12:m", n=model.n)
                        _model_log(model, 1)
                info["logs"] += count
                if not model.any_added:
                    info["buffered_max"] = max(info["buffered_max"], len(model.buffer))
                    if model.n > 1000:
                        info["over_cap"] = True
            elif kind == "add0":
                # add_destinations() with nothing to add (an empty configuration): still the first call
                fresh.add()
                if not model.any_added:
                    model.any_added = True
                    model.buffer = []
                    info["empty_first_add"] = True
            elif kind == "add":
                count = 1 + op[1] % 3
                new_ids = []
                for _ in range(count):
                    i = model.next_dest
                    model.next_dest += 1
                    lst = []
                    real[i] = lst
                    dest_objs[i] = _make_dest(lst, i)
                    model.received[i] = []
                    new_ids.append(i)
                fresh.add(*[dest_objs[i] for i in new_ids])
                info["adds"] += 1
                first = not model.any_added
                model.dests.extend(new_ids)
                if first:
                    model.any_added = True
                    if model.buffer:
                        info["buffered_then_added"] = True
                    for n, tag in model.buffer:
                        # delivered now: carries the global fields set before delivery
                        for i in new_ids:
                            model.received[i].append((n, tag, dict(model.globals)))
                    model.buffer = []
            elif kind == "remove":
                if not model.dests:
                    continue
                i = model.dests[op[1] % len(model.dests)]
                fresh.remove(dest_objs[i])
                model.dests.remove(i)
                info["removes"] += 1
                if i in model.dests:
                    info["removed_one_of_equal_twins"] = True
            elif kind == "twin":
                # a second, distinct destination object that compares equal to a registered one and feeds the same
                # sink (like two FileDestinations for one stream): each registration is offered every message
                if not model.dests:
                    continue
                i = model.dests[op[1] % len(model.dests)]
                fresh.add(_make_dest(real[i], i))
                model.dests.append(i)
                info["twins"] = info.get("twins", 0) + 1
            elif kind == "global":
                key = "g%d" % (op[1] % 3)
                if key in model.globals:
                    info["global_reset"] = True
                fresh.addGlobalFields(**{key: op[2]})
                model.globals[key] = op[2]
                info["globals"] += 1
            else:
                raise ValueError(kind)
            _compare(model, real, step, op)
    finally:
        Logger._destinations = saved_dest
    return info


class _SinkDest(object):
    """A value object like FileDestination: equal when it writes to the same sink."""

    def __init__(self, lst, key):
        self.lst = lst
        self.key = key

    def __call__(self, message):
        self.lst.append(dict(message))

    def __eq__(self, other):
        return isinstance(other, _SinkDest) and other.key == self.key

    def __ne__(self, other):
        return not self.__eq__(other)

    def __hash__(self):
        return hash(self.key)


def _make_dest(lst, key):
    return _SinkDest(lst, key)


def _model_log(model, count, tag="m"):
    for _ in range(count):
        n = model.n
        model.n += 1
        if not model.any_added:
            model.buffer.append((n, tag))
            if len(model.buffer) > 1000:
                model.buffer.pop(0)
        else:
            for i in model.dests:
                model.received[i].append((n, tag, dict(model.globals)))


def _compare(model, real, step, op):
    for i, want in model.received.items():
        got = real[i]
        require(
            len(got) == len(want),
            "received-count",
            lambda: "after step %d %r: destination %d received %d messages, model expects %d (got tail %r, want tail %r)"
            % (step, op, i, len(got), len(want), [m.get("n") for m in got[-3:]], [w[0] for w in want[-3:]]),
        )
        for k in range(len(want)):
            n, tag, glob = want[k]
            m = got[k]
            if tag == "end":
                ok = m.get("action_status") == "succeeded"
            else:
                ok = m.get("n") == n
            require(ok, "received-order", lambda: "after step %d: destination %d position %d is %r, expected message n=%d (%s)" % (step, i, k, dict((a, b) for a, b in m.items() if a in ("n", "action_status", "message_type")), n, tag))
            for gk, gv in glob.items():
                require(
                    m.get(gk) == gv,
                    "global-field",
                    lambda: "after step %d: message n=%s delivered to destination %d carries %s=%r, but %r was set before its delivery" % (step, m.get("n"), i, gk, m.get(gk), gv),
                )


# ------------------------------------------------------- stateful machine


def history_runner(mod, facet, tier, seed, shard, nshards, stats):
    """Drive a RuleBasedStateMachine; every executed history is recorded as data."""
    import time
    import hypothesis
    from hypothesis import HealthCheck, Phase, settings
    from hypothesis import seed as hseed
    from hypothesis.stateful import RuleBasedStateMachine, rule, precondition, run_state_machine_as_test
    from ..core import shard_seed, SHRINK_CAP, run_one

    total = facet.budget[tier]
    count = max(1, (total + nshards - 1) // nshards)
    cap = SHRINK_CAP[tier]

    class Machine(RuleBasedStateMachine):
        def __init__(self):
            super().__init__()
            self.ops = []

        @rule(burst=st.integers(0, len(BURSTS) - 1), in_action=st.booleans())
        def log(self, burst, in_action):
            self.ops.append(["log", burst, int(in_action)])

        @rule(count=st.integers(0, 2))
        def add(self, count):
            self.ops.append(["add", count])

        @precondition(lambda self: any(o[0] == "add" for o in self.ops))
        @rule(k=st.integers(0, 5))
        def remove(self, k):
            self.ops.append(["remove", k])

        @precondition(lambda self: any(o[0] == "add" for o in self.ops))
        @rule(k=st.integers(0, 5))
        def twin(self, k):
            self.ops.append(["twin", k])

        @rule()
        def add_nothing(self):
            self.ops.append(["add0"])

        @rule(key=st.integers(0, 2), value=st.integers(0, 5))
        def set_global(self, key, value):
            self.ops.append(["global", key, value])

        def teardown(self):
            case = {"ops": self.ops}
            try:
                info = check_history(case)
            except Violation as v:
                stats.note_failure(case, v)
                if time.time() - stats.first_failure_at > cap:
                    return
                raise
            nontrivial, labels = classify_history(case, info)
            stats.note_case(case, nontrivial, labels)

    machine = hseed(shard_seed(seed, PROPERTY, facet.name, shard))(Machine)
    try:
        run_state_machine_as_test(
            machine,
            settings=settings(
                max_examples=count,
                stateful_step_count=12,
                database=None,
                deadline=None,
                derandomize=False,
                report_multiple_bugs=False,
                print_blob=False,
                suppress_health_check=list(HealthCheck),
                phases=[Phase.generate, Phase.shrink],
                verbosity=hypothesis.Verbosity.quiet,
            ),
        )
    except Violation:
        pass
    except BaseException:
        if not stats.failures:
            raise


def check_history(case):
    return run_history(case["ops"])


def classify_history(case, info):
    labels = ["adds=%d" % min(info["adds"], 3), "removes=%d" % min(info["removes"], 2)]
    if info["over_cap"]:
        labels.append(">1000-buffered")
    if info["buffered_then_added"]:
        labels.append("buffer-handed-over")
    if info["global_reset"]:
        labels.append("global-key-reset")
    if info["globals"]:
        labels.append("globals")
    if info.get("twins"):
        labels.append("equal-twin-registered")
    if info.get("empty_first_add"):
        labels.append("first-add-call-had-no-destinations")
    if info.get("removed_one_of_equal_twins"):
        labels.append("one-of-two-equal-registrations-removed")
    nontrivial = (info["adds"] >= 2 and info["removes"] >= 1 and info["buffered_then_added"]) or (info["over_cap"] and info["buffered_then_added"])
    return bool(nontrivial), labels


# ------------------------------------------------------------- hand-over


def run_handover(case, dest_factory=None):
    """
    case: {"pre": n messages logged before the threads start,
           "loggers": [[message count, in_action], ...] one logging thread each,
           "ndest": number of destinations in the first add, "plan": plan}
    Workers: 0 = the thread doing the first add, 1.. = logging threads.
    """
    from .. import sched

    saved = Logger._destinations
    with sched.cooperative_locks(_output):
        fresh = Destinations()
    Logger._destinations = fresh
    received = [[] for _ in range(case["ndest"])]
    if dest_factory is None:
        dests = [_make_dest(lst, k) for k, lst in enumerate(received)]
    else:
        dests = [dest_factory(i, lst) for i, lst in enumerate(received)]
    logged = []
    try:
        for k in range(case.get("pre", 0)):
            log_message(message_type="c12:pre", who="pre.%d" % k)
            logged.append("pre.%d" % k)

        second = bool(case.get("second_add")) and len(dests) >= 2
        if second:
            # the first add happens beforehand; the raced call is a later add_destinations
            fresh.add(dests[0])
        removed_at = {}
        clock = [0]
        started = {}

        def tick():
            clock[0] += 1
            return clock[0]

        def adder():
            for k in range(case.get("globals_first", 0)):
                # the thread that registers the destinations sets global fields first, one call each
                fresh.addGlobalFields(**{"h%d" % k: k})
            fresh.add(*(dests[1:] if second else dests))
            if case.get("remove_after_add") and len(dests) >= 2:
                fresh.remove(dests[0])
                removed_at[0] = (len(received[0]), tick())

        def logger_thread(tid, count, in_action):
            def run():
                if in_action:
                    started["t%d.start" % tid] = tick()
                    with start_action(action_type="c12:act", who="t%d.start" % tid):
                        for k in range(count):
                            started["t%d.%d" % (tid, k)] = tick()
                            log_message(message_type="c12:m", who="t%d.%d" % (tid, k))
                        started["t%d.end" % tid] = tick()
                else:
                    for k in range(count):
                        started["t%d.%d" % (tid, k)] = tick()
                        log_message(message_type="c12:m", who="t%d.%d" % (tid, k))

            return run

        fns = [adder]
        for tid, (count, in_action) in enumerate(case["loggers"]):
            fns.append(logger_thread(tid, count, in_action))
            if in_action:
                logged.append("t%d.start" % tid)
                logged.append("t%d.end" % tid)
            for k in range(count):
                logged.append("t%d.%d" % (tid, k))
        s = sched.Scheduler(("eliot/_output.py",), case["plan"], opcodes=bool(case.get("opcodes")))
        s.run(fns)
        # afterwards, sequentially: every registered destination is offered every further message once
        for k in range(2):
            log_message(message_type="c12:post", who="post.%d" % k)
            logged.append("post.%d" % k)
    finally:
        Logger._destinations = saved
    s.second = second
    s.removed_at = removed_at
    s.started = started
    return s, received, logged


def _who(m):
    if m.get("who"):
        return m["who"]
    if m.get("action_status") in ("succeeded", "failed"):
        # end message of thread t's action: recover the thread from its task_uuid
        return None
    return None


def check_handover(case):
    from ..core import HarnessError

    s, received, logged = run_handover(case)
    for wid, e in s.errors.items():
        if isinstance(e, HarnessError):
            raise e
        raise Violation("thread-raised", "worker %d raised %r" % (wid, e))
    # a removed destination receives nothing further
    if 0 in s.removed_at:
        # A logging call that was already under way when remove() returned is concurrent with the removal and may
        # still reach the destination; one that STARTED after remove() returned must not.
        count_then, removed_tick = s.removed_at[0]
        late = [m.get("who") for m in received[0][count_then:] if s.started.get(m.get("who"), 0) > removed_tick]
        require(not late, "delivered-after-remove", lambda: "destination 0 received %r, whose logging calls started after remove_destination had returned" % (late,))
    # map end messages to their action through task_uuid
    order_checks = []
    for i, lst in enumerate(received):
        if i == 0 and 0 in s.removed_at:
            continue
        uu = {}
        for other in received:
            for m in other:
                if m.get("who", "").endswith(".start"):
                    uu[m["task_uuid"]] = m["who"][:-6]
        keys = []
        for m in lst:
            if m.get("who"):
                keys.append(m["who"])
            elif m.get("action_status") in ("succeeded", "failed"):
                keys.append(uu.get(m["task_uuid"], "?") + ".end")
            else:
                keys.append("?" + str(m.get("message_type")))
        counts = {}
        for k in keys:
            counts[k] = counts.get(k, 0) + 1
        dup = sorted(k for k, c in counts.items() if c > 1)
        must = logged
        # the buffer keeps the most recent 1000: when the threads' messages may have been buffered on top of a full
        # buffer, the oldest ones may have been dropped (and only those)
        overflow = max(0, len([k for k in logged if not k.startswith("post.")]) - 1000)
        if overflow:
            optional = set([k for k in logged if k.startswith("pre.")][:overflow])
            must = [k for k in logged if k not in optional]
        if s.second and i >= 1:
            # registered by the raced (second) add: messages logged concurrently with it may or may not arrive, the
            # ones logged before the first add must not, the ones logged after it returned must
            must = [k for k in logged if k.startswith("post.")]
            early = sorted(k for k in counts if k.startswith("pre."))
            require(not early, "delivered-before-registration", lambda: "destination %d (added later) received %r, logged before its registration" % (i, early))
        missing = sorted(k for k in must if k not in counts)
        extra = sorted(k for k in counts if k not in logged)
        require(not missing, "message-lost", lambda: "destination %d never received %r (received %r)" % (i, missing, keys))
        require(not dup, "message-duplicated", lambda: "destination %d received %r more than once (received %r)" % (i, dup, keys))
        require(not extra, "unexpected-message", lambda: "destination %d received unexpected %r" % (i, extra))
        order_checks.append((i, keys))
    # order: what one thread logged arrives in the order it logged it, and what was logged before the threads
    # started (buffered) arrives ahead of everything else  (checked last: loss/duplication first)
    for i, keys in order_checks:
        pos = dict((k, n) for n, k in enumerate(keys))
        pre = [k for k in logged if k.startswith("pre.") and k in pos]
        rest = [k for k in keys if not k.startswith("pre.")]
        bad = [k for k in pre if rest and pos[k] > pos[rest[0]]]
        require(not bad, "order-across-handover", lambda: "destination %d: %r, logged before anything else, arrived after %r (received %r)" % (i, bad, rest[0], keys))
        for tid in range(len(case["loggers"])):
            mine = [k for k in keys if k.startswith("t%d." % tid)]
            want = [k for k in logged if k.startswith("t%d." % tid) and k in pos]
            # program order of one thread: start, 0, 1, ..., end
            def rank(k):
                tail = k.split(".", 1)[1]
                return -1 if tail == "start" else 10**6 if tail == "end" else int(tail)
            require(
                mine == sorted(mine, key=rank),
                "order-across-handover",
                lambda: "destination %d: thread %d's messages arrived as %r" % (i, tid, mine),
            )
    inside = s.switched_inside(("send", "add", "__call__", "stop_buffering", "write"))
    return {"steps": s.steps, "switches": len(s.switches), "switch_inside": len(inside), "ndest": case["ndest"], "pre": case.get("pre", 0)}


def classify_handover(case, info):
    labels = ["ndest=%d" % info["ndest"], "loggers=%d" % len(case["loggers"]), "pre=%s" % (min(info["pre"], 2) if info["pre"] < 900 else "buffer-full"), "switches=%d" % min(info["switches"], 6)]
    if info["switch_inside"]:
        labels.append("preempted-inside-send-or-add")
    labels.append("granularity:bytecode" if case.get("opcodes") else "granularity:line")
    labels.append("raced-call:later-add" if case.get("second_add") and info["ndest"] >= 2 else "raced-call:first-add")
    if case.get("globals_first"):
        labels.append("global-fields-added-concurrently")
    return info["switch_inside"] >= 1, labels


def handover_strategy():
    from .. import sched

    return st.builds(
        lambda gf, second, opc, pre, ndest, rem, plan, loggers: sched.with_granularity({"globals_first": gf, "second_add": second, "pre": pre, "ndest": ndest, "remove_after_add": rem, "plan": plan, "loggers": loggers}, opc),
        st.sampled_from([0, 0, 2, 3]),
        st.sampled_from([False, False, True]),
        st.sampled_from([False, False, True]),
        st.sampled_from([0, 1, 2, 0, 1, 2, 0, 1, 2, 999, 1000]),
        st.integers(1, 3),
        st.just(False),  # concurrent remove is outside the property's schedule quantifier (see DESIGN.md section 9)
        sched.plans(max_segments=8, max_steps=25, workers=3),
        st.lists(st.tuples(st.integers(1, 3), st.integers(0, 1)).map(list), min_size=1, max_size=2),
    )


def handover_enum_runner(mod, facet, tier, seed, shard, nshards, stats):
    """One message vs. the first add: every single- and double-preemption plan."""
    from ..core import enumerate_cases
    from .. import sched

    cases = []
    depth = 40
    for pre in (0, 1):
        for ndest in (1, 2, 3):
            for plan in sched.single_preemption_plans(2, depth):
                cases.append({"pre": pre, "ndest": ndest, "plan": plan, "loggers": [[1, 0]]})
    stride = 1 if tier == "thorough" else 3
    for ndest in (2,):
        for plan in sched.double_preemption_plans(2, depth, stride):
            cases.append({"pre": 1, "ndest": ndest, "plan": plan, "loggers": [[1, 0]]})
    # global fields being added (one call per field) while a logging thread is inside send
    for plan in sched.double_preemption_plans(2, 16, 1):
        cases.append({"globals_first": 3, "second_add": True, "pre": 1, "ndest": 2, "plan": plan, "loggers": [[1, 0]]})
    # a later add_destinations racing a logging thread (the first add was done before)
    for plan in sched.single_preemption_plans(2, depth):
        cases.append({"second_add": True, "pre": 1, "ndest": 2, "plan": plan, "loggers": [[2, 0]]})
    # a full buffer: the logging thread is preempted at k, the adder gets as far as some point of its re-delivery, the
    # logging thread finishes, the adder finishes
    for k in range(0, 34):
        for j in (30, 70) if tier == "thorough" else (30,):
            cases.append({"pre": 1000, "ndest": 1, "plan": [[k, 1], [j, 0], [10**6, 1], [10**6, 0]], "loggers": [[1, 0]]})
    # bytecode granularity: either thread preempted before every instruction, once
    for pre in (0, 1):
        for a, b in ((0, 1), (1, 0)):
            for k in range(0, 420 if tier == "thorough" else 260):
                cases.append({"opcodes": True, "pre": pre, "ndest": 2, "plan": [[k, a], [10**6, b]], "loggers": [[1, 0]]})
    stats.extra["enumerated_plans"] = len(cases)
    enumerate_cases(mod, facet, cases, shard, nshards, stats, exhaustive=True)


def ops_strategy():
    log = st.tuples(st.just("log"), st.integers(0, len(BURSTS) - 1), st.integers(0, 1)).map(list)
    small_log = st.tuples(st.just("log"), st.integers(0, 4), st.integers(0, 1)).map(list)
    add = st.tuples(st.just("add"), st.integers(0, 2)).map(list)
    remove = st.tuples(st.just("remove"), st.integers(0, 5)).map(list)
    glob = st.tuples(st.just("global"), st.integers(0, 2), st.integers(0, 5)).map(list)
    before = st.lists(st.one_of(log, small_log, small_log, glob, st.just(["add0"])), max_size=4)
    twin = st.tuples(st.just("twin"), st.integers(0, 5)).map(list)
    after = st.lists(st.one_of(small_log, small_log, add, remove, glob, log, twin, remove), max_size=10)
    return st.tuples(before, add, after).map(lambda t: {"ops": t[0] + [t[1]] + t[2]})


def _known_f17(facet, case, violation):
    # a message logged while the first add_destinations re-delivers the start-up buffer is handed to the new
    # destinations at once, ahead of buffered messages that are still waiting for re-delivery
    later_add = bool(case.get("second_add")) and case.get("ndest", 1) >= 2
    return facet in ("handover", "handover-enum") and violation.kind == "order-across-handover" and not later_add


KNOWN = {"F17-order-across-handover": _known_f17}

FACETS = [
    Facet("history", None, check_history, classify_history, quick=300, thorough=15000, runner=history_runner),
    Facet("history-list", ops_strategy, check_history, classify_history, quick=500, thorough=40000),
    Facet("handover", handover_strategy, check_handover, classify_handover, quick=400, thorough=30000),
    Facet("handover-enum", None, check_handover, classify_handover, quick=1, thorough=1, runner=handover_enum_runner),
]
