"""
C01 - emitted logs parse back to exactly the action tree the program executed.
"""

from hypothesis import strategies as st

from ..core import Facet, Violation, require, canon, setup_path
from .. import programs as P
from .. import reftree

setup_path()
from eliot.parse import Parser  # noqa: E402

PROPERTY = "C01"
LEVEL = "exploration"
RULE = (
    "Hypothesis-generated logging programs (recursive AST, up to ~40 nodes): actions of kinds with / explicit finish outside "
    "or inside context() / run(f) / ActionType / ActionType.as_task / start_task / log_call, messages via log_message, "
    "Action.log, Message.log, Message.new().write, MessageType.log, write_traceback, raise of 16 exception classes (incl. "
    "BaseException-only, diamond MRO, raising __str__) caught by generated try nodes, remote sub-tasks via serialize_task_id/"
    "continue_task and preserve_context (inline, deferred, other thread); JSON-native field values; written through "
    "FileDestination to a real file in binary or text mode, read back, json-decoded and parsed. Oracle: equality with the "
    "forest the interpreter builds from the AST alone, plus an independent reference tree. Non-trivial: depth >= 2 and at "
    "least one failing action and at least one non-`with` action kind or typed node. Distinct = canonical JSON of the case."
)
ASSUMPTIONS = [
    "timestamps, uuids and traceback text are not compared",
    "field names avoid the names eliot reserves or uses as keyword parameters",
    "the interpreter's model of Python's with/try semantics is trusted",
]


def compare_forest(run, messages, json_mode=True):
    expected = [P.model_plain(t, json_mode) for t in run.tasks]
    n_model = count_messages(run.tasks)
    require(
        len(messages) == n_model,
        "message-count",
        lambda: "model expects %d messages, destination/file has %d" % (n_model, len(messages)),
    )
    try:
        tasks = list(Parser.parse_stream(iter(messages)))
    except Exception as e:
        raise Violation("parser-raised", repr(e))
    require(
        len(tasks) == len(expected),
        "task-count",
        lambda: "program performed %d top-level actions/messages, parser yielded %d tasks" % (len(expected), len(tasks)),
    )
    got = []
    for t in tasks:
        require(t.is_complete(), "incomplete", lambda: "parsed task not complete: %s" % canon(P.written_plain(t.root()))[:600])
        got.append(canon(P.written_plain(t.root())))
    want = [canon(e) for e in expected]
    if sorted(got) != sorted(want):
        missing = [w for w in want if w not in got]
        extra = [g for g in got if g not in want]
        raise Violation(
            "tree-differs",
            "expected (model) but not parsed: %s\nparsed but not expected: %s"
            % ("\n".join(m[:1200] for m in missing[:2]), "\n".join(m[:1200] for m in extra[:2])),
        )
    # independent reference tree agrees with the parser
    ref = reftree.build(messages)
    for t in tasks:
        root = t.root()
        u = root.task_uuid
        require(
            canon(reftree.plain_written(root)) == canon(reftree.plain(ref[u])),
            "parser-vs-reference",
            lambda: "parser %s reference %s" % (canon(reftree.plain_written(root))[:600], canon(reftree.plain(ref[u]))[:600]),
        )
    return expected


def count_messages(nodes):
    total = 0
    for node in nodes:
        if node["kind"] == "msg":
            total += 1
        else:
            total += 2 + count_messages(node["children"])
    return total


def check(case):
    run = P.run_program(case["program"], sink=case["sink"])
    require(not run.errors, "api-raised", lambda: repr(run.errors))
    require(not run.context_errors, "context", lambda: repr(run.context_errors[:3]))
    require(run.trailing == b"", "trailing-fragment", "file does not end with a newline: %r" % (run.trailing[:80],))
    compare_forest(run, run.messages)
    info = dict(run.stats)
    info.pop("task_ids", None)
    info["failed"] = count_failed(run.tasks)
    info["tasks"] = len(run.tasks)
    return info


def count_failed(nodes):
    return sum((1 if n.get("status") == "failed" else 0) + count_failed(n["children"]) for n in nodes if n["kind"] == "action")


def classify(case, info):
    f = P.program_features(case["program"])
    labels = ["sink:" + case["sink"], "depth=%d" % min(f["depth"], 6), "tasks=%d" % min(info["tasks"], 5)]
    for k in sorted(info):
        if k.startswith(("action:", "msg:", "remote:", "caught:")) or k in ("traceback", "remote", "preserve", "deferred-continuation", "escaped-to-top"):
            labels.append(k)
    if info["failed"]:
        labels.append("failed-action")
    if f["base_exc"]:
        labels.append("base-exception-raised")
    non_with = any(k.startswith("action:") and k != "action:with" for k in info) or any(k == "msg:typed" for k in info)
    nontrivial = f["depth"] >= 2 and info["failed"] >= 1 and non_with
    return nontrivial, labels


def strategy():
    return st.builds(
        lambda sink, p: {"program": p, "sink": sink},
        st.sampled_from(["file-b", "file-t"]),
        P.programs(max_nodes=14, status_fields=True),
    )


FACETS = [Facet("roundtrip", strategy, check, classify, quick=1500, thorough=40000)]
