"""
C17 - test helpers reconstruct the same action tree as the parser.
"""

import unittest

from hypothesis import strategies as st

from ..core import Facet, Violation, require, canon, setup_path
from .. import programs as P
from .. import reftree

setup_path()
from eliot.parse import Parser  # noqa: E402
from eliot.testing import LoggedAction, LoggedMessage, assertHasAction, assertHasMessage  # noqa: E402
from eliot.parse import WrittenAction  # noqa: E402

PROPERTY = "C17"
LEVEL = "exploration"
RULE = (
    "Generated logging programs (all action/message kinds; repeated action types at different depths and among "
    "siblings; failed actions; several interleaved tasks via start_task; remote sub-tasks whose continuation runs later "
    "than following siblings or only after the whole program, so emission order != level order) captured by one "
    "MemoryLogger. Oracle, for every action type and message type occurring in the log: LoggedAction.of_type returns one "
    "entry per started-and-finished action of that type in the order of their start messages (independent "
    "reconstruction); each entry's start/end dicts are that action's own message objects (identity), `succeeded` matches "
    "the end status, children (recursively) are exactly the direct child messages and actions in emission order, and - "
    "sorted by level - equal the sub-tree eliot.parse.Parser builds from the same messages; descendants() is the "
    "pre-order of children, type_tree() the pre-order type structure, LoggedMessage.of_type the in-order filter; "
    "assertHasAction / assertHasMessage return the first entry exactly when it exists, has the expected outcome and the "
    "expected fields are a subset (generated sub-, super- and perturbed sets), else raise AssertionError. Non-trivial: two "
    "actions of one type with one a descendant of the other, or a remote child emitted out of level order, or two "
    "interleaved tasks with the same action type. Facet helpers-enum: EVERY program of up to 4 (thorough: 5) nested or "
    "sequenced actions under one top-level action, each either a `with` action or a new task, each of type a or b "
    "(bounded-exhaustive). Distinct = canonical JSON of the case."
)
ASSUMPTIONS = [
    "logs with unfinished actions make of_type raise ValueError by design and are not generated",
]


class _TC(unittest.TestCase):
    def runTest(self):
        pass


def ref_children(node, index):
    """Direct children in emission order: messages by own index, actions by their start message's index."""
    items = []
    for child in node.children.values():
        if child.message is not None:
            items.append((index[id(child.message)], child))
        else:
            require(child.start is not None, "harness", "child action without a start message")
            items.append((index[id(child.start)], child))
    items.sort(key=lambda x: x[0])
    return [c for _, c in items]


def ref_shape(node, index):
    if node.message is not None:
        return {"m": id(node.message)}
    return {"start": id(node.start), "end": id(node.end), "children": [ref_shape(c, index) for c in ref_children(node, index)]}


def logged_shape(x):
    if isinstance(x, LoggedMessage):
        return {"m": id(x.message)}
    return {"start": id(x.startMessage), "end": id(x.endMessage), "children": [logged_shape(c) for c in x.children]}


def logged_by_level(x):
    if isinstance(x, LoggedMessage):
        return {"m": id(x.message), "level": list(x.message["task_level"])}
    kids = sorted((logged_by_level(c) for c in x.children), key=lambda d: d["level"])
    return {"start": id(x.startMessage), "end": id(x.endMessage), "level": list(x.startMessage["task_level"][:-1]), "children": kids}


def written_by_level(node, ids):
    if not isinstance(node, WrittenAction):
        return {"m": ids[(node.task_uuid, tuple(node.task_level.as_list()))], "level": node.task_level.as_list()}
    return {
        "start": ids[(node.task_uuid, tuple(node.start_message.task_level.as_list()))],
        "end": ids[(node.task_uuid, tuple(node.end_message.task_level.as_list()))],
        "level": node.task_level.as_list(),
        "children": [written_by_level(c, ids) for c in node.children],
    }


def preorder(shape):
    out = []
    for c in shape["children"]:
        out.append(c["m"] if "m" in c else c["start"])
        if "children" in c:
            out.extend(preorder(c))
    return out


def _monotype(nodes, mode=1):
    out = []
    for node in nodes:
        node = dict(node)
        if "atype" in node:
            # mode 2: new tasks get another type, so equal-typed actions sit at equal levels of different tasks
            node["atype"] = "app:b" if (mode == 2 and node.get("kind") in ("task", "typed_task")) else "app:a"
            node["default_type"] = False
        for part in ("body", "handler", "final"):
            if node.get(part):
                node[part] = _monotype(node[part], mode)
        out.append(node)
    return out


def check(case):
    from .c03 import build_extractors

    opts = {"allow_late": True}
    if case.get("extractors"):
        opts["extractors"] = build_extractors(case["extractors"])
    program = case["program"]
    if case.get("monotype"):
        # every action of the same type: siblings, descendants and other tasks' actions of equal type everywhere
        program = _monotype(program, case["monotype"])
    run = P.run_program(program, sink="memorylogger", opts=opts)
    require(not run.errors, "api-raised", lambda: repr(run.errors))
    msgs = run.messages
    if not msgs:
        return {"actions": 0, "same_type_nested": False, "out_of_order": False, "interleaved_same_type": False}
    index = dict((id(m), i) for i, m in enumerate(msgs))
    ids = dict(((m["task_uuid"], tuple(m["task_level"])), id(m)) for m in msgs)
    tasks = reftree.build(msgs)
    # all action nodes of the reference
    actions = []

    def walk(node, ancestors):
        if node.message is not None:
            return
        actions.append((node, ancestors))
        for c in node.children.values():
            walk(c, ancestors + [node])

    for root in tasks.values():
        walk(root, [])
    parsed = {}
    for t in Parser.parse_stream(iter(msgs)):
        root = t.root()

        def collect(n):
            if isinstance(n, WrittenAction):
                parsed[(n.task_uuid, tuple(n.task_level.as_list()))] = n
                for c in n.children:
                    collect(c)

        collect(root)
    types = sorted(set(a.start["action_type"] for a, _ in actions))
    seen_levels = {}
    collide = False
    for a, anc in actions:
        key = (a.start["action_type"], tuple(a.start["task_level"]))
        if len(key[1]) > 1 and key in seen_levels and seen_levels[key] != a.start["task_uuid"]:
            collide = True
        seen_levels.setdefault(key, a.start["task_uuid"])
    tc = _TC()
    info = {"actions": len(actions), "same_type_nested": False, "out_of_order": False, "interleaved_same_type": False, "collide": collide}
    for T in types:
        want_nodes = sorted((a for a, _ in actions if a.start["action_type"] == T), key=lambda a: index[id(a.start)])
        try:
            got = LoggedAction.of_type(msgs, T)
        except Exception as e:
            raise Violation("of_type-raised", "LoggedAction.of_type(%r) raised %r" % (T, e))
        require(len(got) == len(want_nodes), "of_type-count", lambda: "of_type(%r) returned %d entries, the log has %d finished actions of that type" % (T, len(got), len(want_nodes)))
        for k, (la, node) in enumerate(zip(got, want_nodes)):
            require(la.startMessage is node.start, "of_type-order", lambda: "of_type(%r)[%d] is the action started at message %s, expected the one started at message %d" % (T, k, index.get(id(la.startMessage)), index[id(node.start)]))
            require(la.endMessage is node.end, "end-message", lambda: "of_type(%r)[%d] has another action's end message" % (T, k))
            require(la.start_message is la.startMessage and la.end_message is la.endMessage, "aliases", "PEP8 aliases differ")
            require(la.succeeded == (node.end["action_status"] == "succeeded"), "succeeded", "succeeded flag wrong")
            a, b = logged_shape(la), ref_shape(node, index)
            require(a == b, "children", lambda: "of_type(%r)[%d]: children differ from the action's direct children in emission order\n helper %r\n reference %r" % (T, k, _render(a, index), _render(b, index)))
            key = (node.start["task_uuid"], tuple(node.level))
            pa = written_by_level(parsed[key], ids)
            lb = logged_by_level(la)
            require(pa == lb, "parser-differs", lambda: "of_type(%r)[%d] sorted by level differs from the parser's tree" % (T, k))
            desc = [id(d.message) if isinstance(d, LoggedMessage) else id(d.startMessage) for d in la.descendants()]
            require(desc == preorder(a), "descendants", "descendants() is not the pre-order of children")
            tt = la.type_tree()
            require(tt == _type_tree(la), "type_tree", lambda: "type_tree() %r" % (tt,))
        # classification
        for node, anc in [(a, an) for a, an in actions if a.start["action_type"] == T]:
            if any(x.start is not None and x.start["action_type"] == T for x in anc):
                info["same_type_nested"] = True
        uu = [n.start["task_uuid"] for n in want_nodes]
        if len(set(uu)) >= 2:
            # interleaved: task A appears, then B, then A again among the entries or messages
            firsts = {}
            for m in msgs:
                firsts.setdefault(m["task_uuid"], index[id(m)])
            order_by_task_first = sorted(want_nodes, key=lambda n: (firsts[n.start["task_uuid"]], index[id(n.start)]))
            if [id(n) for n in order_by_task_first] != [id(n) for n in want_nodes]:
                info["interleaved_same_type"] = True
        # assert helpers on the first entry
        first = want_nodes[0]
        ok = first.end["action_status"] == "succeeded"
        for variant in case["asserts"]:
            sf = _variant(first.start, variant[0], variant[2])
            efd = _variant(first.end, variant[1], variant[3])
            expect_ok = variant[4] == 0
            succ = ok if expect_ok else not ok
            should_pass = expect_ok and _subset(sf, first.start) and _subset(efd, first.end)
            try:
                r = assertHasAction(tc, run.memory_logger, T, succ, sf, efd)
                passed = True
            except AssertionError:
                passed = False
            except Exception as e:
                raise Violation("assertHasAction-raised", repr(e))
            require(passed == should_pass, "assertHasAction", lambda: "assertHasAction(%r, succeeded=%r, start=%r, end=%r) %s but should %s" % (T, succ, sf, efd, "passed" if passed else "failed", "pass" if should_pass else "fail"))
            if passed:
                require(r.startMessage is first.start, "assertHasAction", "returned a different entry than the first")
    # out-of-order children?
    for a, _ in actions:
        kids = ref_children(a, index)
        levels = [(k.message or k.start)["task_level"] for k in kids]
        if levels != sorted(levels):
            info["out_of_order"] = True
    # messages
    mtypes = sorted(set(m["message_type"] for m in msgs if "message_type" in m))
    for T in mtypes:
        got = LoggedMessage.of_type(msgs, T)
        want = [m for m in msgs if m.get("message_type") == T]
        require([id(x.message) for x in got] == [id(m) for m in want], "message-of_type", lambda: "LoggedMessage.of_type(%r) wrong" % (T,))
        first = want[0]
        for variant in case["asserts"][:2]:
            f = _variant(first, variant[0], variant[2])
            should_pass = _subset(f, first)
            try:
                r = assertHasMessage(tc, run.memory_logger, _MT(T), f)
                passed = True
            except AssertionError:
                passed = False
            except Exception as e:
                raise Violation("assertHasMessage-raised", repr(e))
            require(passed == should_pass, "assertHasMessage", lambda: "assertHasMessage(%r, %r) %s" % (T, f, "passed" if passed else "failed"))
            if passed:
                require(r.message is first, "assertHasMessage", "returned a different message than the first")
    try:
        assertHasAction(tc, run.memory_logger, "no-such-type", True)
        raise Violation("assertHasAction", "passed for a type that was never logged")
    except AssertionError:
        pass
    return info


class _MT(object):
    def __init__(self, t):
        self.message_type = t


def _type_tree(la):
    kids = []
    for c in la.children:
        if isinstance(c, LoggedAction):
            kids.append(_type_tree(c))
        else:
            kids.append(c.message["message_type"])
    return {la.startMessage["action_type"]: kids}


def _render(shape, index):
    if "m" in shape:
        return "m%s" % _ix(shape["m"], index)
    return "a%s[%s]" % (_ix(shape["start"], index), ", ".join(_render(c, index) for c in shape["children"]))


def _ix(i, index):
    return index.get(i, "?")


def _subset(fields, message):
    try:
        return all(k in message and message[k] == v for k, v in fields.items())
    except Exception:
        return False


def _variant(message, mode, pick):
    """Expected-field dicts: 0 empty, 1 subset, 2 all, 3 perturbed value, 4 extra key, 5 absent key expected to be None."""
    keys = sorted(k for k in message if k not in ("timestamp",))
    if mode == 0 or not keys:
        return {}
    if mode == 1:
        k = keys[pick % len(keys)]
        return {k: message[k]}
    if mode == 2:
        return dict((k, message[k]) for k in keys)
    if mode == 3:
        k = keys[pick % len(keys)]
        return {k: ("perturbed", pick)}
    if mode == 5:
        return {"no_such_field_%d" % pick: None}
    return {"no_such_field_%d" % pick: 1}


def classify(case, info):
    labels = ["actions=%d" % min(info["actions"], 10)]
    for k in ("same_type_nested", "out_of_order", "interleaved_same_type"):
        if info[k]:
            labels.append(k)
    if info.get("collide"):
        labels.append("nested-actions-of-equal-type-at-equal-level-in-two-tasks")
    return bool(info["same_type_nested"] or info["out_of_order"] or info["interleaved_same_type"]), labels


def strategy():
    variant = st.tuples(st.integers(0, 5), st.integers(0, 5), st.integers(0, 5), st.integers(0, 5), st.sampled_from([0, 0, 0, 1])).map(list)
    from .c03 import extractor_specs

    return st.builds(
        lambda mono, asserts, ex, p: {"monotype": mono, "asserts": asserts, "extractors": ex, "program": p},
        st.sampled_from([0, 0, 1, 2]),
        st.lists(variant, min_size=1, max_size=4),
        st.one_of(st.just([]), extractor_specs()),
        P.programs(max_nodes=12, max_depth=5, remote_weight=2, min_depth=2, status_fields=True),
    )


def _forests(n):
    """All ordered forests with n nodes (as nested lists)."""
    if n == 0:
        return [[]]
    out = []
    for k in range(1, n + 1):
        # first tree has k nodes (root + forest of k-1), the rest is a forest of n-k
        for kids in _forests(k - 1):
            for rest in _forests(n - k):
                out.append([kids] + rest)
    return out


def _label(forest, choices, pos):
    nodes = []
    for kids in forest:
        kind, atype = choices[pos[0]]
        pos[0] += 1
        body = _label(kids, choices, pos)
        nodes.append(
            {"op": "action", "exc": 0, "early_finish": 0, "kind": kind, "atype": atype, "sf": {}, "ef": {}, "body": body, "typed": ["id"], "extra_finish": 0, "include_result": False, "default_type": False}
        )
    return nodes


def enum_runner(mod, facet, tier, seed, shard, nshards, stats):
    """Every program of up to 4 (thorough: 5) nested/sequenced actions, each a `with` action or a new task, of type a or b."""
    import itertools
    from ..core import enumerate_cases

    options = [("with", "app:a"), ("with", "app:b"), ("task", "app:a"), ("task", "app:b")]
    cases = []
    for n in range(2, 6 if tier == "thorough" else 5):
        for forest in _forests(n):
            if len(forest) != 1:
                continue  # one top-level action; other tasks are started inside it
            for choices in itertools.product(options, repeat=n):
                if choices[0][0] != "with":
                    continue
                cases.append({"asserts": [[0, 0, 0, 0, 0]], "extractors": [], "monotype": 0, "program": _label(forest, list(choices), [0])})
    stats.extra["enumerated_programs"] = len(cases)
    enumerate_cases(mod, facet, cases, shard, nshards, stats, exhaustive=True)


FACETS = [
    Facet("helpers", strategy, check, classify, quick=1200, thorough=30000),
    Facet("helpers-enum", None, check, classify, quick=1, thorough=1, runner=enum_runner),
]
