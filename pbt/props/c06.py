"""
C06 - a serialized task id continues the same tree in another thread or process.
"""

import threading

from hypothesis import strategies as st

from ..core import Facet, Violation, HarnessError, require, canon, setup_path
from .. import programs as P
from .. import invariants, sched
from .c01 import compare_forest

setup_path()
from eliot import Logger, current_action, preserve_context, start_action, log_message  # noqa: E402
from eliot import _action  # noqa: E402
from eliot._action import TooManyCalls  # noqa: E402
from eliot._output import Destinations  # noqa: E402

PROPERTY = "C06"
LEVEL = "exploration"
RULE = (
    "Facet handoff: generated programs with serialize_task_id/continue_task and preserve_context nodes at arbitrary "
    "points and depths (ids as bytes or text, multi-hop, many ids per action, each used once; continuation inline later, "
    "in another thread, or in a forked child process logging to its own file), then a generated permutation that merges "
    "all sides' logs; oracle: ids pairwise distinct and equal to no emitted level, the merged log parses to the model "
    "forest (remote sub-tree is the child at exactly the reserved position, same task_uuid), C02 invariants (non-causal) "
    "hold. Facet preserve-race: 2-3 threads invoke one preserve_context callable under schedules at source-line and bytecode-instruction granularity of "
    "eliot/_action.py (generated plans + complete single-preemption enumeration); oracle: the function runs exactly once, "
    "exactly one call returns its result (or raises its exception object), every other call raises TooManyCalls, one "
    "remote sub-tree is logged with no duplicate level. Facet id-race(-enum): 2-3 threads inside one action hand out ids (serialize_task_id / preserve_context) "
    "while the others log there, under the same two schedule granularities; every id is then continued and the merged log must parse "
    "to one complete task with one remote sub-tree per id. Facet preserve-seq: wrap with/without a current action a plain function, a functools.wraps-decorated one whose "
    "wrapper supplies an argument, a callable object, a partial or a bound method; extra keyword arguments of arbitrary names, 0-4 "
    "sequential calls (inside or after the originating action, same thread), result or exception; oracle as above plus identity `preserve_context(f) is f` without a current "
    "action, and the function's message lies inside the one remote sub-tree below the origin. Non-trivial: a hop at depth >= 2, or >= 2 hops, or a merge order that interleaves sides, or a schedule that "
    "switches inside restore_eliot_context. Distinct = canonical JSON of the case."
)
ASSUMPTIONS = [
    "ids used twice or never used are outside the quantifier and not generated",
    "only 'inside the parent's lifetime' is required of a remote child's emission position",
    "process hops fork from the main thread only (about 1 in 6 remote nodes)",
]


def _permute(messages, keys):
    ks = list(keys) + [0] * len(messages)
    idx = sorted(range(len(messages)), key=lambda i: (ks[i] if i < len(ks) else 0, i))
    return [messages[i] for i in idx]


def check_handoff(case):
    run = P.run_program(case["program"], sink="memory", opts={"allow_fork": True})
    require(not run.errors, "api-raised", lambda: repr(run.errors))
    require(not run.context_errors, "context", lambda: "; ".join(run.context_errors[:3]))
    ids = run.stats.get("task_ids", [])
    require(len(set(ids)) == len(ids), "task-id-reused", lambda: "serialize_task_id returned a duplicate: %r" % (ids,))
    merged = list(run.messages)
    for side in run.side_logs:
        merged.extend(side)
    levels = set("%s@/%s" % (m["task_uuid"], "/".join(map(str, m["task_level"]))) for m in merged)
    for tid in ids:
        require(tid not in levels, "task-id-collides", lambda: "task id %s equals an emitted message's level" % tid)
    merged = _permute(merged, case["merge"])
    invariants.check_messages(merged, causal=False)
    compare_forest(run, merged)
    f = P.program_features(case["program"])
    return {
        "hops": run.stats.get("remote", 0) + run.stats.get("preserve", 0),
        "process_hops": run.stats.get("remote:process-hop", 0),
        "thread_hops": run.stats.get("remote:thread", 0),
        "depth": f["depth"],
        "interleaved": sorted(case["merge"][: len(merged)]) != list(case["merge"][: len(merged)]),
        "messages": len(merged),
        "id_components": max([len([c for c in tid.split("@")[1].split("/") if c]) for tid in ids] or [0]),
    }


def classify_handoff(case, info):
    labels = ["hops=%d" % min(info["hops"], 4), "depth=%d" % min(info["depth"], 6)]
    if info["process_hops"]:
        labels.append("process-hop")
    if info["thread_hops"]:
        labels.append("thread-hop")
    if info["interleaved"]:
        labels.append("interleaving-merge-order")
    labels.append("deepest-id-components=%d" % min(info.get("id_components", 0), 6))
    nontrivial = info["hops"] >= 1 and (info["depth"] >= 3 or info["hops"] >= 2 or info["interleaved"])
    return nontrivial, labels


def handoff_strategy():
    def more_remote(p):
        return p

    return st.builds(
        lambda merge, p: {"merge": merge, "program": _processify(p, merge)},
        st.lists(st.integers(0, 50), max_size=60),
        st.one_of(
            # deep chains of actions and hops (ids with many level components, multi-hop) ...
            P.programs(max_nodes=12, max_depth=8, kinds=["with", "finish", "run", "typed", "log_call", "gen_next", "with", "with"], remote_weight=5, min_depth=2, extras=False, raises=False, reenter=False),
            # ... and the broad program generator (exceptions, re-entered contexts, new tasks, actions created for later)
            P.programs(max_nodes=12, max_depth=5, kinds=["with", "finish", "run", "task", "typed", "log_call", "gen_next"], remote_weight=4, min_depth=2),
        ),
    )


def _processify(program, merge):
    """Turn some thread hops into process hops (deterministically from the case data)."""
    counter = [sum(merge) if merge else 0]

    def walk(nodes):
        out = []
        for node in nodes:
            node = dict(node)
            if node.get("op") == "remote":
                counter[0] += 1
                if counter[0] % 3 == 0:
                    node["where"] = "process"
                    node["defer"] = 0
            for part in ("body", "handler", "final"):
                if node.get(part):
                    node[part] = walk(node[part])
            out.append(node)
        return out

    return walk(program)


# ------------------------------------------------------------ preserve race


class Boom(Exception):
    pass


def check_race(case):
    nthreads = case["threads"]
    saved = Logger._destinations
    fresh = Destinations()
    Logger._destinations = fresh
    msgs = []
    fresh.add(lambda m: msgs.append(dict(m)))
    calls = []
    results = {}
    lock = threading.Lock()
    raises = bool(case.get("raises"))
    boom = Boom("f fails")
    sentinel = object()
    try:
        with start_action(action_type="c06:origin"):
            def f(*a, **kw):
                with lock:
                    calls.append(threading.current_thread().name)
                log_message(message_type="c06:inside")
                if raises:
                    raise boom
                return sentinel

            wrapped = preserve_context(f)

            def worker(i):
                def run():
                    try:
                        r = wrapped()
                        results[i] = ("result", r)
                    except TooManyCalls:
                        results[i] = ("toomany", None)
                    except Boom as e:
                        results[i] = ("boom", e)

                return run

            s = sched.Scheduler(("eliot/_action.py",), case["plan"], opcodes=bool(case.get("opcodes")))
            s.run([worker(i) for i in range(nthreads)])
            for wid, e in s.errors.items():
                if isinstance(e, HarnessError):
                    raise e
                raise Violation("thread-raised", "worker %d raised %r" % (wid, e))
    finally:
        Logger._destinations = saved
    require(len(calls) == 1, "ran-more-than-once", lambda: "the preserved function ran %d times (%r); outcomes %r" % (len(calls), calls, sorted((k, v[0]) for k, v in results.items())))
    kinds = sorted(v[0] for v in results.values())
    want = sorted([("boom" if raises else "result")] + ["toomany"] * (nthreads - 1))
    require(kinds == want, "outcomes", lambda: "outcomes %r, expected %r" % (kinds, want))
    for v in results.values():
        if v[0] == "result":
            require(v[1] is sentinel, "result-altered", "result object altered")
        if v[0] == "boom":
            require(v[1] is boom, "exception-altered", "exception object altered")
    invariants.check_messages(msgs, causal=False)
    remote_starts = [m for m in msgs if m.get("action_type") == "eliot:remote_task" and m.get("action_status") == "started"]
    require(len(remote_starts) == 1, "remote-subtree-count", lambda: "%d eliot:remote_task start messages" % len(remote_starts))
    inside = s.switched_inside(("restore_eliot_context", "continue_task", "_start", "__init__", "_nextTaskLevel"))
    return {"switches": len(s.switches), "switch_inside": len(inside), "steps": s.steps}


def classify_race(case, info):
    labels = ["threads=%d" % case["threads"], "switches=%d" % min(info["switches"], 6)]
    if case.get("raises"):
        labels.append("f-raises")
    if info["switch_inside"]:
        labels.append("preempted-inside-restore")
    labels.append("granularity:bytecode" if case.get("opcodes") else "granularity:line")
    return info["switch_inside"] >= 1, labels


def race_strategy():
    return st.builds(
        lambda opc, n, raises, plan: sched.with_granularity({"threads": n, "raises": raises, "plan": plan}, opc),
        st.sampled_from([False, False, True]),
        st.integers(2, 3),
        st.booleans(),
        sched.plans(max_segments=8, max_steps=12, workers=3),
    )


def race_enum_runner(mod, facet, tier, seed, shard, nshards, stats):
    from ..core import enumerate_cases

    cases = []
    for raises in (False, True):
        for plan in sched.single_preemption_plans(2, 30):
            cases.append({"threads": 2, "raises": raises, "plan": plan})
    for k in range(0, 12):
        for j in range(0, 12):
            cases.append({"threads": 3, "raises": False, "plan": [[k, 0], [j, 1], [10**6, 2]]})
    # bytecode granularity: the first caller preempted before every instruction of the call
    for raises in (False, True):
        for k in range(0, 260 if tier == "thorough" else 160):
            cases.append({"opcodes": True, "threads": 2, "raises": raises, "plan": [[k, 0], [10**6, 1]]})
    stats.extra["enumerated_plans"] = len(cases)
    enumerate_cases(mod, facet, cases, shard, nshards, stats, exhaustive=True)


# ------------------------------------------------- ids handed out under a race


def check_id_race(case):
    """
    Threads working inside one action hand out task ids (serialize_task_id, or
    preserve_context) while the others log there, under schedules of
    eliot/_action.py.  Afterwards every id is continued, one after the other;
    the merged log must be one complete task in which every remote sub-tree
    sits at a position of its own.
    """
    from eliot import Action
    from eliot.parse import Parser

    saved = Logger._destinations
    fresh = Destinations()
    Logger._destinations = fresh
    msgs = []
    lock = threading.Lock()

    def dest(m):
        with lock:
            msgs.append(dict(m))

    fresh.add(dest)
    saved_threading = _action.threading
    _action.threading = sched.coop_threading_module()
    handed = []
    try:
        with start_action(action_type="c06:origin") as origin:
            def worker(tid, ops):
                def run():
                    with origin.context():
                        for k, op in enumerate(ops):
                            if op == "m":
                                log_message(message_type="c06:m", who="t%d.%d" % (tid, k))
                            elif op == "s":
                                handed.append(("id", origin.serialize_task_id(), "t%d.%d" % (tid, k)))
                            else:
                                who = "t%d.%d" % (tid, k)
                                handed.append(("callable", preserve_context(lambda who=who: log_message(message_type="c06:remote", who=who)), who))

                return run

            s = sched.Scheduler(("eliot/_action.py",), case["plan"], opcodes=bool(case.get("opcodes")))
            s.run([worker(i, ops) for i, ops in enumerate(case["threads"])])
            for wid, e in s.errors.items():
                if isinstance(e, HarnessError):
                    raise e
                raise Violation("thread-raised", "worker %d raised %r" % (wid, e))
            _action.threading = saved_threading

            def continue_all():
                for kind, thing, who in handed:
                    if kind == "id":
                        with Action.continue_task(task_id=thing):
                            log_message(message_type="c06:remote", who=who)
                    else:
                        thing()

            t = threading.Thread(target=continue_all)
            t.start()
            t.join()
    finally:
        Logger._destinations = saved
        _action.threading = saved_threading
    described = [(m.get("message_type") or m.get("action_type"), m["task_level"], m.get("who")) for m in msgs]
    try:
        invariants.check_messages(msgs, causal=False)
    except Violation as v:
        raise Violation(v.kind, "%s; logged %r" % (v.detail, described))
    tasks = list(Parser.parse_stream(msgs))
    require(len(tasks) == 1 and tasks[0].is_complete(), "merged-log-not-one-complete-task", lambda: "%d task(s), complete=%r; logged %r" % (len(tasks), [t.is_complete() for t in tasks], described))
    root = tasks[0].root()
    remote = [c for c in root.children if getattr(c, "action_type", None) == "eliot:remote_task"]
    require(len(remote) == len(handed), "remote-subtree-count", lambda: "%d ids handed out, %d remote sub-trees below the origin; logged %r" % (len(handed), len(remote), described))
    inside = s.switched_inside(("serialize_task_id", "_nextTaskLevel", "preserve_context", "log", "toString", "to_string"))
    return {"switches": len(s.switches), "switch_inside": len(inside), "ids": len(handed)}


def classify_id_race(case, info):
    labels = ["threads=%d" % len(case["threads"]), "ids=%d" % min(info["ids"], 4), "switches=%d" % min(info["switches"], 6), "granularity:bytecode" if case.get("opcodes") else "granularity:line"]
    if info["switch_inside"]:
        labels.append("preempted-while-handing-out-an-id")
    return info["ids"] >= 1 and info["switch_inside"] >= 1, labels


def id_race_strategy():
    ops = st.lists(st.sampled_from(["m", "s", "p"]), min_size=1, max_size=3)
    return st.builds(
        lambda opc, plan, threads: sched.with_granularity({"plan": plan, "threads": threads}, opc),
        st.sampled_from([False, True]),
        sched.plans(max_segments=10, max_steps=20, workers=3),
        st.lists(ops, min_size=2, max_size=3).filter(lambda ts: any(op != "m" for t in ts for op in t)),
    )


def id_race_enum_runner(mod, facet, tier, seed, shard, nshards, stats):
    from ..core import enumerate_cases

    cases = []
    for threads in ([["s"], ["m"]], [["p"], ["m"]], [["s"], ["s"]], [["p"], ["s", "m"]]):
        for plan in sched.single_preemption_plans(2, 30):
            cases.append({"plan": plan, "threads": threads})
        for k in range(0, 220 if tier == "thorough" else 140):
            cases.append({"opcodes": True, "plan": [[k, 0], [10**6, 1]], "threads": threads})
    stats.extra["enumerated_plans"] = len(cases)
    enumerate_cases(mod, facet, cases, shard, nshards, stats, exhaustive=True)


# ------------------------------------------------------- sequential histories


def check_seq(case):
    saved = Logger._destinations
    fresh = Destinations()
    Logger._destinations = fresh
    msgs = []
    fresh.add(lambda m: msgs.append(dict(m)))
    calls = [0]
    boom = Boom("x")
    sentinel = object()
    outcomes = []

    received = []

    def f(a, b=2, **kwargs):
        calls[0] += 1
        received.append(kwargs)
        log_message(message_type="c06:inside", a=a)
        if case["raises"]:
            raise boom
        return (sentinel, a, b)

    f = _as_kind(f, case.get("fkind", 0))

    try:
        if case["context"]:
            with start_action(action_type="c06:origin"):
                wrapped = preserve_context(f)
                if case["call_inside"]:
                    outcomes = _call_n(wrapped, case["calls"], boom, sentinel, case.get("kwargs"))
            if not case["call_inside"]:
                outcomes = _call_n(wrapped, case["calls"], boom, sentinel, case.get("kwargs"))
        else:
            wrapped = preserve_context(f)
            require(wrapped is f, "not-identity", "preserve_context(f) is not f without a current action")
            outcomes = _call_n(wrapped, case["calls"], boom, sentinel, case.get("kwargs"))
        require(current_action() is None, "context", "current action leaked")
    finally:
        Logger._destinations = saved
    n = case["calls"]
    for kw in received:
        require(kw == dict(case.get("kwargs") or {}), "arguments-altered", lambda: "f received keyword arguments %r, was called with %r" % (kw, case.get("kwargs")))
    if case["context"]:
        want = (["boom" if case["raises"] else "result"] + ["toomany"] * (n - 1)) if n else []
        require(outcomes == want, "outcomes", lambda: "outcomes %r, expected %r" % (outcomes, want))
        require(calls[0] == min(n, 1), "ran-more-than-once", "f ran %d times" % calls[0])
        if n >= 1:
            # (an id that is never used leaves a reserved gap by design)
            invariants.check_messages(msgs, causal=False)
            # the one call that ran did so inside a remote sub-tree that is a child of the originating action
            remote = [m for m in msgs if m.get("action_type") == "eliot:remote_task" and m.get("action_status") == "started"]
            require(len(remote) == 1, "remote-subtree-count", lambda: "%d eliot:remote_task start messages for a preserved callable that ran once; logged %r" % (len(remote), [(m.get("message_type") or m.get("action_type"), m["task_level"]) for m in msgs]))
            inside = [m for m in msgs if m.get("message_type") == "c06:inside"]
            origin = [m for m in msgs if m.get("action_type") == "c06:origin"][0]
            require(
                len(inside) == 1 and inside[0]["task_uuid"] == origin["task_uuid"] == remote[0]["task_uuid"] and inside[0]["task_level"][:-1] == remote[0]["task_level"][:-1] and len(remote[0]["task_level"]) == 2,
                "not-in-remote-subtree",
                lambda: "the function's message %r is not inside the remote sub-tree %r of the origin" % ([(m["task_uuid"][:8], m["task_level"]) for m in inside], (remote[0]["task_uuid"][:8], remote[0]["task_level"])),
            )
    else:
        want = ["boom" if case["raises"] else "result"] * n
        require(outcomes == want, "outcomes", lambda: "outcomes %r, expected %r" % (outcomes, want))
    return {"calls": n}


def _as_kind(f, kind):
    """The same function as the kinds of callables people hand to preserve_context."""
    import functools

    if kind == 1:
        # a decorator that supplies the first argument (functools.wraps: __wrapped__ names a different signature)
        def inner(connection, a, b=2, **kwargs):
            assert connection == "connection"
            return f(a, b, **kwargs)

        @functools.wraps(inner)
        def outer(*args, **kwargs):
            return inner("connection", *args, **kwargs)

        return outer
    if kind == 2:
        class Job(object):
            def __call__(_s, a, b=2, **kwargs):
                return f(a, b, **kwargs)

        return Job()
    if kind == 3:
        return functools.partial(lambda z, a, b=2, **kwargs: f(a, b, **kwargs), "z")
    if kind == 4:
        class Owner(object):
            def method(_s, a, b=2, **kwargs):
                return f(a, b, **kwargs)

        return Owner().method
    return f


def _call_n(wrapped, n, boom, sentinel, kwargs=None):
    out = []
    for i in range(n):
        try:
            r = wrapped(i, b=5, **dict(kwargs or {}))
            require(r[0] is sentinel and r[1] == i and r[2] == 5, "result-altered", "result/arguments altered: %r" % (r,))
            out.append("result")
        except TooManyCalls:
            out.append("toomany")
        except Boom as e:
            require(e is boom, "exception-altered", "exception altered")
            out.append("boom")
        except Violation:
            raise
        except Exception as e:
            raise Violation("call-raised", "calling the preserve_context callable with (%d, b=5, **%r) raised %r" % (i, kwargs, e))
    return out


def classify_seq(case, info):
    labels = ["calls=%d" % case["calls"], "context" if case["context"] else "no-context", "raises" if case["raises"] else "returns"]
    labels.append("callable:" + ["function", "wraps-decorated", "callable-object", "partial", "bound-method"][case.get("fkind", 0)])
    if case.get("kwargs"):
        labels.append("extra-keyword-arguments")
    return case["calls"] >= 2 and case["context"], labels


def seq_strategy():
    return st.builds(
        lambda fk, c, ci, r, n, kw: {"fkind": fk, "context": c, "call_inside": ci, "raises": r, "calls": n, "kwargs": kw},
        st.sampled_from([0, 0, 1, 2, 3, 4]),
        st.booleans(),
        st.booleans(),
        st.booleans(),
        st.integers(0, 4),
        # whatever the function's parameters happen to be called
        st.dictionaries(st.sampled_from(["f", "task_id", "called", "args", "kwargs", "self", "action", "func", "x"]), st.integers(0, 3), max_size=3),
    )


FACETS = [
    Facet("handoff", handoff_strategy, check_handoff, classify_handoff, quick=600, thorough=15000),
    Facet("preserve-race", race_strategy, check_race, classify_race, quick=300, thorough=20000),
    Facet("preserve-race-enum", None, check_race, classify_race, quick=1, thorough=1, runner=race_enum_runner),
    Facet("id-race", id_race_strategy, check_id_race, classify_id_race, quick=200, thorough=10000),
    Facet("id-race-enum", None, check_id_race, classify_id_race, quick=1, thorough=1, runner=id_race_enum_runner),
    Facet("preserve-seq", seq_strategy, check_seq, classify_seq, quick=400, thorough=4000, quick_shards=2, thorough_shards=2),
]
