"""
C06 - a serialized task id continues the same tree in another thread or process.
"""

import threading

from hypothesis import strategies as st

from ..core import Facet, Violation, HarnessError, require, canon, setup_path
from .. import programs as P
from .. import invariants, sched
from .c01 import compare_forest

setup_path()
from eliot import Logger, current_action, preserve_context, start_action, log_message  # noqa: E402
from eliot import _action  # noqa: E402
from eliot._action import TooManyCalls  # noqa: E402
from eliot._output import Destinations  # noqa: E402

PROPERTY = "C06"
LEVEL = "exploration"
RULE = (
    "Facet handoff: generated programs with serialize_task_id/continue_task and preserve_context nodes at arbitrary "
    "points and depths (ids as bytes or text, multi-hop, many ids per action, each used once; continuation inline later, "
    "in another thread, or in a forked child process logging to its own file), then a generated permutation that merges "
    "all sides' logs; oracle: ids pairwise distinct and equal to no emitted level, the merged log parses to the model "
    "forest (remote sub-tree is the child at exactly the reserved position, same task_uuid), C02 invariants (non-causal) "
    "hold. Facet preserve-race: 2-3 threads invoke one preserve_context callable under schedules at source-line and bytecode-instruction granularity of "
    "eliot/_action.py (generated plans + complete single-preemption enumeration); oracle: the function runs exactly once, "
    "exactly one call returns its result (or raises its exception object), every other call raises TooManyCalls, one "
    "remote sub-tree is logged with no duplicate level. Facet preserve-seq: wrap with/without a current action, extra keyword arguments of arbitrary names, 0-4 "
    "sequential calls, result or exception; oracle as above plus identity `preserve_context(f) is f` without a current "
    "action. Non-trivial: a hop at depth >= 2, or >= 2 hops, or a merge order that interleaves sides, or a schedule that "
    "switches inside restore_eliot_context. Distinct = canonical JSON of the case."
)
ASSUMPTIONS = [
    "ids used twice or never used are outside the quantifier and not generated",
    "only 'inside the parent's lifetime' is required of a remote child's emission position",
    "process hops fork from the main thread only (about 1 in 6 remote nodes)",
]


def _permute(messages, keys):
    ks = list(keys) + [0] * len(messages)
    idx = sorted(range(len(messages)), key=lambda i: (ks[i] if i < len(ks) else 0, i))
    return [messages[i] for i in idx]


def check_handoff(case):
    run = P.run_program(case["program"], sink="memory", opts={"allow_fork": True})
    require(not run.errors, "api-raised", lambda: repr(run.errors))
    require(not run.context_errors, "context", lambda: "; ".join(run.context_errors[:3]))
    ids = run.stats.get("task_ids", [])
    require(len(set(ids)) == len(ids), "task-id-reused", lambda: "serialize_task_id returned a duplicate: %r" % (ids,))
    merged = list(run.messages)
    for side in run.side_logs:
        merged.extend(side)
    levels = set("%s@/%s" % (m["task_uuid"], "/".join(map(str, m["task_level"]))) for m in merged)
    for tid in ids:
        require(tid not in levels, "task-id-collides", lambda: "task id %s equals an emitted message's level" % tid)
    merged = _permute(merged, case["merge"])
    invariants.check_messages(merged, causal=False)
    compare_forest(run, merged)
    f = P.program_features(case["program"])
    return {
        "hops": run.stats.get("remote", 0) + run.stats.get("preserve", 0),
        "process_hops": run.stats.get("remote:process-hop", 0),
        "thread_hops": run.stats.get("remote:thread", 0),
        "depth": f["depth"],
        "interleaved": sorted(case["merge"][: len(merged)]) != list(case["merge"][: len(merged)]),
        "messages": len(merged),
        "id_components": max([len([c for c in tid.split("@")[1].split("/") if c]) for tid in ids] or [0]),
    }


def classify_handoff(case, info):
    labels = ["hops=%d" % min(info["hops"], 4), "depth=%d" % min(info["depth"], 6)]
    if info["process_hops"]:
        labels.append("process-hop")
    if info["thread_hops"]:
        labels.append("thread-hop")
    if info["interleaved"]:
        labels.append("interleaving-merge-order")
    labels.append("deepest-id-components=%d" % min(info.get("id_components", 0), 6))
    nontrivial = info["hops"] >= 1 and (info["depth"] >= 3 or info["hops"] >= 2 or info["interleaved"])
    return nontrivial, labels


def handoff_strategy():
    def more_remote(p):
        return p

    return st.builds(
        lambda merge, p: {"merge": merge, "program": _processify(p, merge)},
        st.lists(st.integers(0, 50), max_size=60),
        st.one_of(
            # deep chains of actions and hops (ids with many level components, multi-hop) ...
            P.programs(max_nodes=12, max_depth=8, kinds=["with", "finish", "run", "typed", "log_call", "gen_next", "with", "with"], remote_weight=5, min_depth=2, extras=False, raises=False, reenter=False),
            # ... and the broad program generator (exceptions, re-entered contexts, new tasks, actions created for later)
            P.programs(max_nodes=12, max_depth=5, kinds=["with", "finish", "run", "task", "typed", "log_call", "gen_next"], remote_weight=4, min_depth=2),
        ),
    )


def _processify(program, merge):
    """Turn some thread hops into process hops (deterministically from the case data)."""
    counter = [sum(merge) if merge else 0]

    def walk(nodes):
        out = []
        for node in nodes:
            node = dict(node)
            if node.get("op") == "remote":
                counter[0] += 1
                if counter[0] % 3 == 0:
                    node["where"] = "process"
                    node["defer"] = 0
            for part in ("body", "handler", "final"):
                if node.get(part):
                    node[part] = walk(node[part])
            out.append(node)
        return out

    return walk(program)


# ------------------------------------------------------------ preserve race


class Boom(Exception):
    pass


def check_race(case):
    nthreads = case["threads"]
    saved = Logger._destinations
    fresh = Destinations()
    Logger._destinations = fresh
    msgs = []
    fresh.add(lambda m: msgs.append(dict(m)))
    calls = []
    results = {}
    lock = threading.Lock()
    raises = bool(case.get("raises"))
    boom = Boom("f fails")
    sentinel = object()
    try:
        with start_action(action_type="c06:origin"):
            def f(*a, **kw):
                with lock:
                    calls.append(threading.current_thread().name)
                log_message(message_type="c06:inside")
                if raises:
                    raise boom
                return sentinel

            wrapped = preserve_context(f)

            def worker(i):
                def run():
                    try:
                        r = wrapped()
                        results[i] = ("result", r)
                    except TooManyCalls:
                        results[i] = ("toomany", None)
                    except Boom as e:
                        results[i] = ("boom", e)

                return run

            s = sched.Scheduler(("eliot/_action.py",), case["plan"], opcodes=bool(case.get("opcodes")))
            s.run([worker(i) for i in range(nthreads)])
            for wid, e in s.errors.items():
                if isinstance(e, HarnessError):
                    raise e
                raise Violation("thread-raised", "worker %d raised %r" % (wid, e))
    finally:
        Logger._destinations = saved
    require(len(calls) == 1, "ran-more-than-once", lambda: "the preserved function ran %d times (%r); outcomes %r" % (len(calls), calls, sorted((k, v[0]) for k, v in results.items())))
    kinds = sorted(v[0] for v in results.values())
    want = sorted([("boom" if raises else "result")] + ["toomany"] * (nthreads - 1))
    require(kinds == want, "outcomes", lambda: "outcomes %r, expected %r" % (kinds, want))
    for v in results.values():
        if v[0] == "result":
            require(v[1] is sentinel, "result-altered", "result object altered")
        if v[0] == "boom":
            require(v[1] is boom, "exception-altered", "exception object altered")
    invariants.check_messages(msgs, causal=False)
    remote_starts = [m for m in msgs if m.get("action_type") == "eliot:remote_task" and m.get("action_status") == "started"]
    require(len(remote_starts) == 1, "remote-subtree-count", lambda: "%d eliot:remote_task start messages" % len(remote_starts))
    inside = s.switched_inside(("restore_eliot_context", "continue_task", "_start", "__init__", "_nextTaskLevel"))
    return {"switches": len(s.switches), "switch_inside": len(inside), "steps": s.steps}


def classify_race(case, info):
    labels = ["threads=%d" % case["threads"], "switches=%d" % min(info["switches"], 6)]
    if case.get("raises"):
        labels.append("f-raises")
    if info["switch_inside"]:
        labels.append("preempted-inside-restore")
    labels.append("granularity:bytecode" if case.get("opcodes") else "granularity:line")
    return info["switch_inside"] >= 1, labels


def race_strategy():
    return st.builds(
        lambda opc, n, raises, plan: sched.with_granularity({"threads": n, "raises": raises, "plan": plan}, opc),
        st.sampled_from([False, False, True]),
        st.integers(2, 3),
        st.booleans(),
        sched.plans(max_segments=8, max_steps=12, workers=3),
    )


def race_enum_runner(mod, facet, tier, seed, shard, nshards, stats):
    from ..core import enumerate_cases

    cases = []
    for raises in (False, True):
        for plan in sched.single_preemption_plans(2, 30):
            cases.append({"threads": 2, "raises": raises, "plan": plan})
    for k in range(0, 12):
        for j in range(0, 12):
            cases.append({"threads": 3, "raises": False, "plan": [[k, 0], [j, 1], [10**6, 2]]})
    # bytecode granularity: the first caller preempted before every instruction of the call
    for raises in (False, True):
        for k in range(0, 260 if tier == "thorough" else 160):
            cases.append({"opcodes": True, "threads": 2, "raises": raises, "plan": [[k, 0], [10**6, 1]]})
    stats.extra["enumerated_plans"] = len(cases)
    enumerate_cases(mod, facet, cases, shard, nshards, stats, exhaustive=True)


# ------------------------------------------------------- sequential histories


def check_seq(case):
    saved = Logger._destinations
    fresh = Destinations()
    Logger._destinations = fresh
    msgs = []
    fresh.add(lambda m: msgs.append(dict(m)))
    calls = [0]
    boom = Boom("x")
    sentinel = object()
    outcomes = []

    received = []

    def f(a, b=2, **kwargs):
        calls[0] += 1
        received.append(kwargs)
        log_message(message_type="c06:inside", a=a)
        if case["raises"]:
            raise boom
        return (sentinel, a, b)

    try:
        if case["context"]:
            with start_action(action_type="c06:origin"):
                wrapped = preserve_context(f)
                if case["call_inside"]:
                    outcomes = _call_n(wrapped, case["calls"], boom, sentinel, case.get("kwargs"))
            if not case["call_inside"]:
                outcomes = _call_n(wrapped, case["calls"], boom, sentinel, case.get("kwargs"))
        else:
            wrapped = preserve_context(f)
            require(wrapped is f, "not-identity", "preserve_context(f) is not f without a current action")
            outcomes = _call_n(wrapped, case["calls"], boom, sentinel, case.get("kwargs"))
        require(current_action() is None, "context", "current action leaked")
    finally:
        Logger._destinations = saved
    n = case["calls"]
    for kw in received:
        require(kw == dict(case.get("kwargs") or {}), "arguments-altered", lambda: "f received keyword arguments %r, was called with %r" % (kw, case.get("kwargs")))
    if case["context"]:
        want = (["boom" if case["raises"] else "result"] + ["toomany"] * (n - 1)) if n else []
        require(outcomes == want, "outcomes", lambda: "outcomes %r, expected %r" % (outcomes, want))
        require(calls[0] == min(n, 1), "ran-more-than-once", "f ran %d times" % calls[0])
        if n >= 1:
            # (an id that is never used leaves a reserved gap by design)
            invariants.check_messages(msgs, causal=False)
    else:
        want = ["boom" if case["raises"] else "result"] * n
        require(outcomes == want, "outcomes", lambda: "outcomes %r, expected %r" % (outcomes, want))
    return {"calls": n}


def _call_n(wrapped, n, boom, sentinel, kwargs=None):
    out = []
    for i in range(n):
        try:
            r = wrapped(i, b=5, **dict(kwargs or {}))
            require(r[0] is sentinel and r[1] == i and r[2] == 5, "result-altered", "result/arguments altered: %r" % (r,))
            out.append("result")
        except TooManyCalls:
            out.append("toomany")
        except Boom as e:
            require(e is boom, "exception-altered", "exception altered")
            out.append("boom")
        except Violation:
            raise
        except Exception as e:
            raise Violation("call-raised", "calling the preserve_context callable with (%d, b=5, **%r) raised %r" % (i, kwargs, e))
    return out


def classify_seq(case, info):
    labels = ["calls=%d" % case["calls"], "context" if case["context"] else "no-context", "raises" if case["raises"] else "returns"]
    if case.get("kwargs"):
        labels.append("extra-keyword-arguments")
    return case["calls"] >= 2 and case["context"], labels


def seq_strategy():
    return st.builds(
        lambda c, ci, r, n, kw: {"context": c, "call_inside": ci, "raises": r, "calls": n, "kwargs": kw},
        st.booleans(),
        st.booleans(),
        st.booleans(),
        st.integers(0, 4),
        # whatever the function's parameters happen to be called
        st.dictionaries(st.sampled_from(["f", "task_id", "called", "args", "kwargs", "self", "action", "func", "x"]), st.integers(0, 3), max_size=3),
    )


FACETS = [
    Facet("handoff", handoff_strategy, check_handoff, classify_handoff, quick=600, thorough=15000),
    Facet("preserve-race", race_strategy, check_race, classify_race, quick=300, thorough=20000),
    Facet("preserve-race-enum", None, check_race, classify_race, quick=1, thorough=1, runner=race_enum_runner),
    Facet("preserve-seq", seq_strategy, check_seq, classify_seq, quick=400, thorough=4000, quick_shards=2, thorough_shards=2),
]
