"""
C03 - each action logs exactly one start and one truthful end; errors pass through.
"""

from hypothesis import strategies as st

from ..core import Facet, Violation, require, canon, setup_path
from .. import programs as P
from .c01 import compare_forest, count_failed

setup_path()

PROPERTY = "C03"
LEVEL = "exploration"
RULE = (
    "Generated nested programs where bodies exit normally or by raising one of 16 exception classes (Exception and "
    "BaseException subclasses: KeyboardInterrupt, SystemExit, GeneratorExit, asyncio.CancelledError, custom; diamond MRO; "
    "__str__ that raises), caught 0..k levels further out by generated try nodes or left to generator close/throw; all "
    "action kinds; start/success field sets; 0-2 extra finish() calls; extractor registrations (returning fields, or "
    "raising) on any subset of 18 classes along the MROs (registry snapshotted/restored per case). Oracle: per action "
    "exactly one start and one end in the observer; the whole observed forest equals the model built from the AST "
    "(status failed iff an exception left the body; module-qualified class name; str(e); fields of the extractor "
    "registered for the nearest class in the MRO, none if it raised, plus one traceback for a raising extractor); the "
    "object caught further out is the raised object (identity); success fields only on successful ends. Non-trivial: a "
    "BaseException-only class raised, or an MRO with >= 2 registered classes hit, or a failure propagating through >= 2 "
    "actions. Facet interrupted-finish: a second destination raises KeyboardInterrupt while writing generated end messages "
    "and the program finishes explicitly with the defensive `except BaseException as e: action.finish(e); raise` idiom: the "
    "first destination must still see exactly one start and one end per action. Distinct = canonical JSON of the case."
)
ASSUMPTIONS = [
    "extractors return dicts and raise only Exception subclasses (anything else is a contract violation of the caller)",
    "traceback text and timestamps are not compared",
]

EXTRACTOR_CLASSES = [
    Exception,
    BaseException,
    LookupError,
    KeyError,
    OSError,
    ArithmeticError,
    ValueError,
    RuntimeError,
    P.AppError,
    P.DiamondError,
    P.DeepError,
    P.BadStrError,
    P.CodedError,
    P.AppBase,
    KeyboardInterrupt,
    GeneratorExit,
    SystemExit,
    FileNotFoundError,
]
RAISABLE = [i for i, c in enumerate(P.EXC_TABLE) if issubclass(c, Exception)]


def build_extractors(spec):
    out = {}
    for cls_index, beh in spec:
        out[EXTRACTOR_CLASSES[cls_index % len(EXTRACTOR_CLASSES)]] = beh
    return out


def check(case):
    extractors = build_extractors(case["extractors"])
    run = P.run_program(case["program"], sink="memory", opts={"extractors": extractors})
    require(not run.errors, "api-raised", lambda: repr(run.errors))
    require(not run.context_errors, "context", lambda: repr(run.context_errors[:3]))
    # exactly one start and one end per action, straight from the observer
    starts, ends = {}, {}
    for m in run.messages:
        if "action_status" in m:
            key = (m["task_uuid"], tuple(m["task_level"][:-1]))
            bucket = starts if m["action_status"] == "started" else ends
            bucket[key] = bucket.get(key, 0) + 1
    for key in set(starts) | set(ends):
        require(
            starts.get(key, 0) == 1 and ends.get(key, 0) == 1,
            "start-end-count",
            lambda: "action %r has %d start and %d end messages" % (key, starts.get(key, 0), ends.get(key, 0)),
        )
    compare_forest(run, run.messages)
    info = dict((k, v) for k, v in run.stats.items() if k != "task_ids")
    info["failed"] = count_failed(run.tasks)
    info["max_chain"] = max_failed_chain(run.tasks)
    info["registered_hits"] = registered_hits(run.tasks, extractors)
    return info


def max_failed_chain(nodes):
    best = 0
    for n in nodes:
        if n["kind"] != "action":
            continue
        sub = max_failed_chain(n["children"])
        if n.get("status") == "failed":
            best = max(best, 1 + sub)
        else:
            best = max(best, sub)
    return best


def registered_hits(nodes, extractors):
    """Largest number of registered classes in the MRO of an exception that failed an action."""
    best = 0
    for n in nodes:
        if n["kind"] != "action":
            continue
        e = n.get("exc_obj")
        if e is not None:
            best = max(best, sum(1 for k in type(e).__mro__ if k in extractors))
        best = max(best, registered_hits(n["children"], extractors))
    return best


def classify(case, info):
    f = P.program_features(case["program"])
    labels = ["depth=%d" % min(f["depth"], 6), "extractors=%d" % min(len(case["extractors"]), 5)]
    for k in sorted(info):
        if k.startswith(("action:", "caught:")) or k in ("extractor-raised", "escaped-to-top"):
            labels.append(k)
    if info["failed"]:
        labels.append("failed-action")
    if f["base_exc"]:
        labels.append("base-exception-raised")
    if info["max_chain"] >= 2:
        labels.append("failure-through>=2-actions")
    if info["registered_hits"] >= 2:
        labels.append("mro-with>=2-registered")
    nontrivial = info["failed"] >= 1 and (f["base_exc"] >= 1 or info["registered_hits"] >= 2 or info["max_chain"] >= 2)
    return nontrivial, labels


def extractor_specs(allow_none=False):
    """allow_none: also extractors that return None.  What is logged for those is not specified anywhere (the
    unchanged tree treats them like a raising extractor); only checks that judge "nothing raises, the exception
    propagates" use them, not the ones that compare the log with the model."""
    beh = st.one_of(
        st.builds(lambda x: {"fields": {"x": x}}, st.integers(0, 9)),
        st.builds(lambda x, y: {"fields": {"x": x, "y": [y]}}, st.integers(0, 9), st.text(max_size=3)),
        # an extractor whose fields are named like eliot's own (the truthful values must win on end messages)
        st.builds(lambda x: {"fields": {"reason": "extractor-reason-%d" % x, "code": x}}, st.integers(0, 9)),
        st.builds(lambda x: {"fields": {"exception": "extractor.Name%d" % x, "traceback": "extractor-traceback", "code": x}}, st.integers(0, 9)),
        # an extractor handing out a dict it keeps (e.g. `lambda e: e.details`)
        st.builds(lambda x, y: {"fields": {"x": x, "y": [y]}, "persistent": True}, st.integers(0, 9), st.text(max_size=3)),

        st.sampled_from(RAISABLE).map(lambda i: {"raise": i}),
        # extractors that fail while their result is being read rather than in the call
        st.sampled_from(RAISABLE).map(lambda i: {"raise": i, "lazy": True}),
        *([st.just({"none": True})] if allow_none else [])
    )
    general = st.lists(st.tuples(st.integers(0, len(EXTRACTOR_CLASSES) - 1), beh).map(list), max_size=5)
    # registrations on the broad base classes hit every failing action: keep them frequent
    broad = st.tuples(st.sampled_from([0, 0, 1]), beh).map(list)
    return st.one_of(general, st.tuples(broad, general).map(lambda p: [p[0]] + p[1]))


def strategy():
    return st.builds(
        lambda ex, p: {"program": p, "extractors": ex},
        extractor_specs(),
        P.programs(max_nodes=12, remote=True),
    )


# ------------------------------------------------- interrupted end messages


class Interrupt(KeyboardInterrupt):
    """Arrives while a later destination is writing an end message."""

    injected = True


class InterruptingDest(object):
    def __init__(self, mask):
        self.mask = set(mask)
        self.ends = 0

    def __call__(self, message):
        if message.get("action_status") in ("succeeded", "failed"):
            k = self.ends
            self.ends += 1
            if k in self.mask:
                raise Interrupt("interrupted while writing end message %d" % k)


def defensive(program):
    """Applications finishing explicitly wrap it in `except BaseException as e: action.finish(e); raise`."""
    out = []
    for node in program:
        node = dict(node)
        if node.get("op") == "action":
            node["defensive_finish"] = True
        for part in ("body", "handler", "final"):
            if node.get(part):
                node[part] = defensive(node[part])
        out.append(node)
    return out


def check_interrupted(case):
    dest = InterruptingDest(case["mask"])
    run = P.run_program(
        defensive(case["program"]),
        sink="memory",
        destinations=lambda observer: [observer, dest],
        opts={"check_context": False, "defensive_finish": True},
    )
    require(not run.errors, "api-raised", lambda: repr(run.errors))
    starts, ends = {}, {}
    for m in run.messages:
        if "action_status" in m:
            key = (m["task_uuid"], tuple(m["task_level"][:-1]))
            bucket = starts if m["action_status"] == "started" else ends
            bucket.setdefault(key, []).append((m["action_status"], m["task_level"]))
    for key in set(starts) | set(ends):
        require(len(starts.get(key, [])) == 1, "start-count", lambda: "action %r has %d start messages" % (key, len(starts.get(key, []))))
        require(len(ends.get(key, [])) == 1, "end-count", lambda: "action %r has end messages %r (an interrupt hit one of them; finishing again must emit nothing)" % (key, ends.get(key)))
    hit = len([k for k in dest.mask if k < dest.ends])
    return {"interrupts": hit, "actions": len(starts)}


def classify_interrupted(case, info):
    return info["interrupts"] >= 1 and info["actions"] >= 2, ["interrupts=%d" % min(info["interrupts"], 3), "actions=%d" % min(info["actions"], 8)]


def interrupted_strategy():
    return st.builds(
        lambda mask, p: {"mask": sorted(set(mask)), "program": p},
        st.lists(st.integers(0, 8), min_size=1, max_size=3),
        P.programs(max_nodes=10, max_depth=4, kinds=["with", "finish", "finish_inside", "run", "task", "typed"], remote=False, extras=False),
    )


FACETS = [
    Facet("outcomes", strategy, check, classify, quick=1500, thorough=40000),
    Facet("interrupted-finish", interrupted_strategy, check_interrupted, classify_interrupted, quick=500, thorough=10000),
]
