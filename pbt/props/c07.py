"""
C07 - logging never raises into, or alters, the application.
"""

import io

from hypothesis import strategies as st

from ..core import Facet, Violation, require, canon, setup_path
from .. import programs as P
from .. import hostile as H
from .c03 import EXTRACTOR_CLASSES, RAISABLE, build_extractors, extractor_specs

setup_path()
from eliot import FileDestination  # noqa: E402

PROPERTY = "C07"
LEVEL = "fault_enumeration"
RULE = (
    "Generated logging programs (all action/message kinds, tracebacks, remote sub-tasks, generators) whose field values "
    "are drawn from a hostile table (objects whose __str__/__repr__ raise, non-string and unprintable dict keys, ints beyond "
    "64 bits, NaN/Inf, invalid-UTF-8 bytes, lone surrogates, lambdas, generators, types, self-referential and 5000-deep "
    "containers, plus ordinary values) x fault masks: typed-field serializers failing on a generated subset of calls, "
    "exception extractors that raise, 1-3 destinations raising (ValueError, RuntimeError, OSError, KeyError, "
    "RecursionError, MemoryError, an exception whose str() raises) on generated subsets of their calls or always, a "
    "FileDestination on BytesIO (fails to encode hostile values), default Logger or MemoryLogger. Oracle: every public call "
    "made by the interpreter (start_action, start_task, ActionType(), __enter__/__exit__, context(), run, finish, "
    "add_success_fields, log_message, Action.log, Message.log/new/write, MessageType.log, write_traceback, log_call, "
    "serialize_task_id, continue_task, preserve_context) returns normally or raises exactly the object the program raised; "
    "log_call / run return values are the same object; actions may also be finished explicitly inside their own with-block "
    "before the body goes on (and raises). Failures are bucketed by (call, exception type, innermost eliot "
    "frame). Facet handover: logging threads race (line-level schedules, generated and every single preemption) with "
    "the first add_destinations of destinations that raise: no logging call may raise. Non-trivial: a fault or hostile value that hits an end message or a failure report, or >= 2 simultaneous fault "
    "kinds. Distinct = canonical JSON of the case."
)
ASSUMPTIONS = [
    "destinations, serializers and extractors raise Exception subclasses only; an extractor returns a dict, None, or an iterable of pairs that raises part way",
    "field names are strings that do not collide with the logging functions' own keyword parameters",
]

DEST_EXC = [ValueError, RuntimeError, OSError, KeyError, RecursionError, MemoryError, P.BadStrError]


class SerializerFault(Exception):
    injected_serializer = True


class FaultyDest(object):
    def __init__(self, mask, exc_index, every):
        self.mask = set(mask)
        self.exc = DEST_EXC[exc_index % len(DEST_EXC)]
        self.every = every
        self.calls = 0
        self.runaway = False
        self.hits = []

    def __call__(self, message):
        k = self.calls
        self.calls += 1
        if message.get("message_type") == "eliot:destination_failure" and "eliot:destination_failure" in str(message.get("message")):
            # a report about a failed report (unbounded recursion ahead): stop failing, flag it
            self.runaway = True
            return
        if k in self.mask or (self.every and k % self.every == 0):
            self.hits.append((message.get("action_status"), message.get("message_type")))
            raise self.exc("destination fault %d" % k)


def check(case):
    faulty = [FaultyDest(f["mask"], f["exc"], f.get("every")) for f in case["faulty"]]
    ser_calls = [0]
    ser_mask = set(case.get("ser_mask", []))
    ser_hits = [0]

    def serializer_hook(name, key, fn, value):
        k = ser_calls[0]
        ser_calls[0] += 1
        if k in ser_mask:
            ser_hits[0] += 1
            raise SerializerFault("serializer call %d fails" % k)
        return fn(value)

    filedest = []

    def destinations(observer):
        d = list(faulty)
        if case.get("filedest"):
            fd = FileDestination(file=io.BytesIO())
            filedest.append(fd)
            d.append(fd)
        d.insert(case.get("observer_pos", 0) % (len(d) + 1), observer)
        return d

    opts = {"extractors": build_extractors(case["extractors"]), "serializer_hook": serializer_hook, "serialize": False, "check_context": True, "allow_early_finish": True}
    sink = "memorylogger" if case.get("memorylogger") else "memory"
    del H.ITERATORS[:]
    run = P.run_program(case["program"], sink=sink, opts=opts, destinations=destinations)
    used_up = [g for g in H.ITERATORS if list(g) != [0, 1, 2]]
    require(not used_up, "application-object-consumed", lambda: "%d of %d one-shot iterators logged as field values were (partly) consumed by logging" % (len(used_up), len(H.ITERATORS)))
    if run.errors:
        e = run.errors[0]
        raise Violation("api-raised:%s:%s:%s" % (e["call"], e["exception"].split(":")[0], e["where"]), repr(run.errors))
    require(not run.context_errors, "context", lambda: "; ".join(run.context_errors[:3]))
    require(not any(f.runaway for f in faulty), "report-on-report", "a failure while delivering a failure report was itself reported (unbounded recursion)")
    hits = [h for f in faulty for h in f.hits]
    info = {
        "dest_hits": len(hits),
        "hit_end": sum(1 for h in hits if h[0] in ("succeeded", "failed")),
        "hit_report": sum(1 for h in hits if h[1] in ("eliot:destination_failure", "eliot:serialization_failure", "eliot:traceback")),
        "ser_hits": ser_hits[0],
        "extractor_raised": run.stats.get("extractor-raised", 0),
        "filedest": bool(filedest),
        "stats": dict((k, v) for k, v in run.stats.items() if k != "task_ids"),
    }
    return info


def classify(case, info):
    text = canon(case["program"])
    hostile = [t for t in H.HOSTILE_TAGS if ('"$t": "%s"' % t) in text]
    labels = ["faulty=%d" % len(case["faulty"])]
    labels.extend("hostile:" + t for t in hostile)
    kinds = 0
    if info["dest_hits"]:
        labels.append("destination-fault-hit")
        kinds += 1
    if info["ser_hits"]:
        labels.append("serializer-fault-hit")
        kinds += 1
    if info["extractor_raised"]:
        labels.append("extractor-raised")
        kinds += 1
    if hostile:
        kinds += 1
    if info["hit_end"]:
        labels.append("fault-on-end-message")
    if info["hit_report"]:
        labels.append("fault-on-report")
    if info["filedest"]:
        labels.append("file-destination")
    if case.get("memorylogger"):
        labels.append("memorylogger")
    nontrivial = bool(info["hit_end"] or info["hit_report"] or kinds >= 2)
    return nontrivial, labels


def strategy():
    faulty = st.lists(
        st.builds(
            lambda mask, exc, every: {"mask": sorted(set(mask)), "exc": exc, "every": every},
            st.lists(st.integers(0, 40), max_size=8),
            st.integers(0, len(DEST_EXC) - 1),
            st.sampled_from([None, None, 1, 2, 3]),
        ),
        max_size=3,
    )
    return st.builds(
        lambda faulty, ser_mask, extractors, filedest, ml, pos, p: {
            "faulty": faulty,
            "ser_mask": sorted(set(ser_mask)),
            "extractors": extractors,
            "filedest": filedest,
            "memorylogger": ml,
            "observer_pos": pos,
            "program": p,
        },
        faulty,
        st.lists(st.integers(0, 20), max_size=5),
        extractor_specs(allow_none=True),
        st.booleans(),
        st.sampled_from([False, False, False, True]),
        st.integers(0, 4),
        P.programs(max_nodes=10, max_depth=4, values=H.hostile_values(), tb_outside=True),
    )


# --------------------------------------------------------------- hand-over


def check_handover(case):
    """Logging threads race with the first add() of destinations that raise: no logging call may raise."""
    from .c12 import run_handover
    from ..core import HarnessError

    def factory(i, lst):
        mask = set(case["dest_masks"][i % len(case["dest_masks"])])
        state = {"calls": 0}

        def dest(message):
            k = state["calls"]
            state["calls"] += 1
            lst.append(dict(message))
            if k in mask or -1 in mask:
                raise OSError("no space left on device (call %d)" % k)

        return dest

    s, received, logged = run_handover(case, dest_factory=factory)
    for wid, e in s.errors.items():
        if isinstance(e, HarnessError):
            raise e
        raise Violation("api-raised:handover", "worker %d (logging thread or add) raised %r" % (wid, e))
    inside = s.switched_inside(("send", "add", "__call__", "stop_buffering", "write"))
    return {"switch_inside": len(inside), "switches": len(s.switches)}


def classify_handover(case, info):
    return info["switch_inside"] >= 1, ["ndest=%d" % case["ndest"], "switches=%d" % min(info["switches"], 6)]


def handover_strategy():
    from .. import sched

    return st.builds(
        lambda pre, ndest, masks, plan, loggers: {"pre": pre, "ndest": ndest, "dest_masks": masks, "plan": plan, "loggers": loggers},
        st.integers(0, 2),
        st.integers(1, 3),
        st.lists(st.one_of(st.just([-1]), st.lists(st.integers(0, 5), max_size=3)), min_size=1, max_size=3),
        sched.plans(max_segments=8, max_steps=25, workers=3),
        st.lists(st.tuples(st.integers(1, 3), st.integers(0, 1)).map(list), min_size=1, max_size=2),
    )


def handover_enum_runner(mod, facet, tier, seed, shard, nshards, stats):
    from ..core import enumerate_cases
    from .. import sched

    cases = []
    for pre in (0, 1):
        for plan in sched.single_preemption_plans(2, 40):
            cases.append({"pre": pre, "ndest": 1, "dest_masks": [[-1]], "plan": plan, "loggers": [[1, 1]]})
    stats.extra["enumerated_plans"] = len(cases)
    enumerate_cases(mod, facet, cases, shard, nshards, stats, exhaustive=True)


FACETS = [
    Facet("hostile", strategy, check, classify, quick=2000, thorough=60000),
    Facet("handover", handover_strategy, check_handover, classify_handover, quick=200, thorough=10000),
    Facet("handover-enum", None, check_handover, classify_handover, quick=1, thorough=1, runner=handover_enum_runner),
]
