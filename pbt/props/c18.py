"""
C18 - log_call is transparent: same result, same exceptions, faithful argument log.
"""

import inspect

from hypothesis import strategies as st

from ..core import Facet, Violation, require, canon, setup_path

setup_path()
from eliot import Logger, log_call  # noqa: E402
from eliot._output import Destinations  # noqa: E402

PROPERTY = "C18"
LEVEL = "exploration"
RULE = (
    "Function definitions generated as source and exec'd: 0-5 parameters of every kind (positional-or-keyword, *args, "
    "keyword-only, **kwargs; positional-only see assumptions), defaults, names drawn from ordinary identifiers and from "
    "names that coincide with eliot's own keyword parameters / message keys (logger, action_type, _serializers, fields, "
    "args, kwargs, result, wrapped_function, include_args, include_result, task_uuid, timestamp, reason, exception, n); "
    "plain functions and methods, also ones already wrapped by another functools.wraps pass-through decorator; bodies that return a shared sentinel, a fresh value built from their locals, or raise a "
    "given exception object; decorator forms @log_call and @log_call(...) with generated action_type, include_args (any "
    "subset incl. empty; invalid names must raise ValueError at decoration), include_result; 1-4 calls per function with "
    "argument lists built both by valid binding and at random (often unbindable). Oracle: differential against the "
    "undecorated function (same value / same object for the sentinel; same raised object; TypeError on both sides with "
    "the body not run for unbindable lists) and the log: exactly one action per successful bind, start fields == "
    "inspect.signature(f).bind(...)+apply_defaults() minus self restricted to include_args, `result` on the successful "
    "end iff include_result, failed end naming the exception, default action_type module.qualname, wrapper __name__/"
    "__doc__/signature preserved. Non-trivial: a signature with >= 2 parameter kinds and a call using defaults or "
    "**kwargs/*args, or a colliding name. Distinct = canonical JSON of the case."
)
ASSUMPTIONS = [
    "positional-only parameters are an open known finding (F4: boltons' wraps drops the '/' marker) and are excluded by construction (counted) and reproduced separately",
    "parameters named like the message format's own keys (task_uuid, task_level, timestamp, action_type, action_status) cannot be stored verbatim in a flat message: transparency is asserted for them, the logged value is not",
    "error messages of TypeErrors are not compared",
]

NAMES = [
    "a", "b", "c", "x", "y", "logger", "action_type", "_serializers", "fields", "args", "kwargs", "result",
    "wrapped_function", "include_args", "include_result", "task_uuid", "timestamp", "reason", "exception", "n",
    "message_type", "task_level", "action_status", "cls", "f", "_call",
]
STRUCT = ("task_uuid", "task_level", "timestamp", "action_type", "action_status")
KINDS = ["posonly", "pos", "var", "kwonly", "varkw"]
SENTINEL = object()


class Boom(Exception):
    pass


BOOM = Boom("body raises")


class EmptyProblems(Exception):
    """A container-style exception that is falsy when it has no entries."""

    def __len__(self):
        return 0


FALSY_BOOM = EmptyProblems("no entries")


def build_source(params, method, body):
    """params: list of [name, kind, default_or_None] already normalised."""
    parts = []
    seen_posonly = any(p[1] == "posonly" for p in params)
    wrote_slash = False
    wrote_star = False
    ordered = sorted(params, key=lambda p: KINDS.index(p[1]))
    if method:
        parts.append("self")
    for i, (name, kind, default) in enumerate(ordered):
        if kind != "posonly" and seen_posonly and not wrote_slash:
            parts.append("/")
            wrote_slash = True
        if kind == "var":
            parts.append("*" + name)
            wrote_star = True
            continue
        if kind == "kwonly" and not wrote_star:
            parts.append("*")
            wrote_star = True
        if kind == "varkw":
            parts.append("**" + name)
            continue
        parts.append(name if default is None else "%s=%r" % (name, default))
    if seen_posonly and not wrote_slash:
        parts.append("/")
    names = [p[0] for p in ordered]
    local_list = "[" + ", ".join("(%r, %s)" % (n, n) for n in names) + "]"
    src = "def target(%s):\n    '''doc of target'''\n    _ran.append(1)\n" % ", ".join(parts)
    if body == "sentinel":
        src += "    return _SENTINEL\n"
    elif body == "locals":
        src += "    return %s\n" % local_list
    elif body == "raise_falsy":
        src += "    raise _FALSY_BOOM\n"
    else:
        src += "    raise _BOOM\n"
    return src


def normalise(params, exclude_posonly, counter):
    out = []
    used = set()
    have_var = have_varkw = False
    need_default = False
    for name, kind, default in params:
        if name == "_call" and exclude_posonly:
            # open known finding F20 (boltons' generated wrapper uses this very name): excluded by construction
            name = "call_"
            counter[0] += 1
        if name in used:
            continue
        if kind == "posonly" and exclude_posonly:
            kind = "pos"
            counter[0] += 1
        if kind == "var":
            if have_var:
                continue
            have_var = True
        if kind == "varkw":
            if have_varkw:
                continue
            have_varkw = True
        used.add(name)
        out.append([name, kind, default])
    # defaults must be monotone over positional parameters
    ordered = sorted(out, key=lambda p: KINDS.index(p[1]))
    for p in ordered:
        if p[1] in ("posonly", "pos"):
            if p[2] is not None:
                need_default = True
            elif need_default:
                p[2] = 0
        if p[1] in ("var", "varkw"):
            p[2] = None
    return ordered


def check(case):
    counter = [0]
    params = normalise(case["params"], not case.get("raw"), counter)
    method = bool(case["method"])
    if not method:
        params = [p for p in params if p[0] != "self"]
    body = case["body"]
    ran = []
    glob = {"_ran": ran, "_SENTINEL": SENTINEL, "_BOOM": BOOM, "_FALSY_BOOM": FALSY_BOOM, "__name__": "genmod18"}
    src = build_source(params, method, body)
    if method:
        src = "class C(object):\n" + "".join("    " + line + "\n" for line in src.splitlines()) + "\n"
    try:
        exec(src, glob)
    except SyntaxError as e:
        from ..core import HarnessError

        raise HarnessError("generated source does not compile: %s\n%s" % (e, src))
    plain = glob["C"].__dict__["target"] if method else glob["target"]
    if case.get("inner_decorator"):
        import functools

        inner = plain

        @functools.wraps(inner)
        def passthrough(*args, **kwargs):
            return inner(*args, **kwargs)

        @functools.wraps(inner)
        def retrying(*args, retries=1, **kwargs):
            # a helper decorator whose wrapper takes an option of its own
            return inner(*args, **kwargs)

        plain = retrying if case["inner_decorator"] == 2 else passthrough
        if case["inner_decorator"] == 3:
            # log_call on top of a function that is already decorated with log_call
            plain = log_call(inner, action_type="inner:call")
    inner_names = [p[0] for p in params]
    names = [p[0] for p in params]
    if case.get("inner_decorator") == 3:
        pass  # the inner wrapper has the function's own signature
    elif case.get("inner_decorator"):
        # what Python binds for the function log_call actually decorates: (*args, **kwargs)
        names = ["args", "kwargs"] if case["inner_decorator"] != 2 else ["args", "retries", "kwargs"]
    deco = case["deco"]
    if case.get("inner_decorator") == 3 and deco.get("action_type") is None:
        # (the qualified name of an already decorated method is that of the generated wrapper: give the outer
        # decorator an explicit type)
        deco = dict(deco, action_type="outer:call")
    include_args = deco.get("include_args")
    if case.get("inner_decorator"):
        # which names include_args may use for a function hidden behind another decorator is not
        # specified (eliot validates against the inner signature but binds the outer one): not exercised
        include_args = None
        deco = dict(deco, include_args=None)
    if include_args is not None:
        include_args = [names[i % len(names)] if isinstance(i, int) and names else i for i in include_args]
        include_args = [i for i in include_args if not isinstance(i, int)]
        include_args = list(dict.fromkeys(include_args))
    invalid = include_args is not None and any(a not in names + (["self"] if method else []) for a in include_args)
    kwargs_deco = {}
    if deco.get("action_type") is not None:
        kwargs_deco["action_type"] = deco["action_type"]
    if include_args is not None:
        kwargs_deco["include_args"] = include_args
    if not deco.get("include_result", True):
        kwargs_deco["include_result"] = False
    try:
        if deco["form"] == "bare" and not kwargs_deco:
            decorated = log_call(plain)
        elif deco["form"] == "direct":
            decorated = log_call(plain, **kwargs_deco)
        elif case.get("shared_decorator") and "include_args" not in kwargs_deco:
            # one configured decorator object applied to several functions
            def other_function(zz=0):
                return zz

            configured = log_call(**kwargs_deco)
            if case["shared_decorator"] == 1:
                configured(other_function)
                decorated = configured(plain)
            else:
                decorated = configured(plain)
                configured(other_function)
        else:
            decorated = log_call(**kwargs_deco)(plain)
    except ValueError as e:
        require(invalid, "decoration-raised", lambda: "log_call raised ValueError %s for valid include_args %r (params %r)" % (e, include_args, names))
        return {"excluded_f4": counter[0], "calls": 0, "invalid_include_args": True, "kinds": 0, "uses_defaults": False, "colliding": False}
    except Exception as e:
        raise Violation("decoration-raised", "log_call(%r) raised %r for\n%s" % (kwargs_deco, e, src))
    require(not invalid, "invalid-include-args-accepted", lambda: "include_args %r names no parameter of %r but no ValueError was raised" % (include_args, names))

    # metadata
    require(decorated.__name__ == plain.__name__, "metadata", "__name__ differs")
    require(decorated.__doc__ == plain.__doc__, "metadata", "__doc__ differs")
    require(str(inspect.signature(decorated)) == str(inspect.signature(plain)), "metadata", lambda: "signature %s vs %s" % (inspect.signature(decorated), inspect.signature(plain)))

    if method:
        cls = glob["C"]
        inst = cls()

    sig = inspect.signature(plain, follow_wrapped=False)
    if case.get("inner_decorator") == 3:
        # log_call keeps the function's signature: the outer decorator binds what the function itself declares
        sig = inspect.signature(inner, follow_wrapped=False)
    expected_type = deco.get("action_type")
    if expected_type is None:
        expected_type = "genmod18.C.target" if method else "genmod18.target"
    info = {"excluded_f4": counter[0], "calls": 0, "bound": 0, "unbindable": 0, "uses_defaults": False, "invalid_include_args": False}
    saved = Logger._destinations
    try:
        for call_index, call in enumerate(case["calls"]):
            args = [_materialise(v) for v in call["args"]]
            kwargs = dict((k, _materialise(v)) for k, v in call["kwargs"].items())
            if case.get("inner_decorator") == 2 and call_index % 2 == 0 and "retries" not in inner_names:
                kwargs["retries"] = 2 + call_index
            kwargs = dict((names[k % len(names)] if isinstance(k, int) and names else str(k), v) for k, v in kwargs.items()) if False else kwargs
            full_args = ([inst] if method else []) + args
            # reference
            del ran[:]
            ref_exc = ref_val = None
            try:
                ref_val = plain(*full_args, **kwargs)
            except BaseException as e:
                ref_exc = e
            ref_ran = bool(ran)
            # decorated
            fresh = Destinations()
            Logger._destinations = fresh
            msgs = []
            fresh.add(lambda m: msgs.append(dict(m)))
            del ran[:]
            got_exc = got_val = None
            try:
                got_val = decorated(*full_args, **kwargs)
            except BaseException as e:
                got_exc = e
            got_ran = bool(ran)
            Logger._destinations = saved
            if case.get("inner_decorator") == 3:
                # the inner decorator's own action is a child; look at the outer one
                msgs = [m for m in msgs if len(m["task_level"]) == 1]
            info["calls"] += 1
            desc = "call args=%r kwargs=%r of\n%s" % (args, kwargs, src)
            if ref_exc is not None and not ref_ran:
                # unbindable argument list
                info["unbindable"] += 1
                require(isinstance(ref_exc, TypeError), "harness", "reference raised %r without running" % (ref_exc,))
                require(got_exc is not None, "accepted-unbindable-call", lambda: "undecorated raises %r, decorated returned %r; %s" % (ref_exc, got_val, desc))
                require(isinstance(got_exc, TypeError), "different-exception", lambda: "undecorated raises TypeError, decorated raises %r; %s" % (got_exc, desc))
                require(not got_ran, "body-ran-on-unbindable-call", desc)
                continue
            info["bound"] += 1
            require(got_ran, "body-not-run", lambda: "decorated call did not run the body (raised %r); %s" % (got_exc, desc))
            bound = sig.bind(*full_args, **kwargs)
            if len(bound.arguments) < len(sig.parameters):
                info["uses_defaults"] = True
            bound.apply_defaults()
            expected = dict(bound.arguments)
            expected.pop("self", None)
            if case.get("inner_decorator"):
                # only presence is compared for these (the tuple holds the instance for methods)
                expected = dict((k, v) for k, v in expected.items())
            if include_args is not None:
                expected = dict((k, v) for k, v in expected.items() if k in include_args)
            if ref_exc is not None:
                require(got_exc is ref_exc, "exception-altered", lambda: "body raised %r, decorated call raised %r; %s" % (ref_exc, got_exc, desc))
            else:
                require(got_exc is None, "decorated-raised", lambda: "decorated call raised %r; %s" % (got_exc, desc))
                if body == "sentinel":
                    require(got_val is SENTINEL, "result-altered", lambda: "returned %r instead of the body's object; %s" % (got_val, desc))
                else:
                    require(got_val == ref_val, "result-altered", lambda: "returned %r, undecorated returns %r; %s" % (got_val, ref_val, desc))
            # the log
            require(len(msgs) == 2, "message-count", lambda: "%d messages logged, expected start+end; %s" % (len(msgs), desc))
            start, end = msgs
            require(start.get("action_status") == "started" and start.get("action_type") == expected_type, "start-message", lambda: "start message %r, expected type %r" % (start, expected_type))
            for k, v in expected.items():
                if k in STRUCT:
                    continue
                require(k in start and _same(start[k], v), "argument-log", lambda: "start message has %s=%r, Python binds %r; start=%r; %s" % (k, start.get(k, "<missing>"), v, _show(start), desc))
            extra = [k for k in start if k not in expected and k not in STRUCT]
            require(not extra, "argument-log-extra", lambda: "start message has unexpected fields %r (expected %r); %s" % (extra, sorted(expected), desc))
            require(end.get("action_type") == expected_type, "end-message", "end message type %r" % (end.get("action_type"),))
            if ref_exc is not None:
                require(
                    end.get("action_status") == "failed" and end.get("exception") == "pbt.props.c18." + type(ref_exc).__name__,
                    "end-message",
                    lambda: "end message %r for a raising body" % (_show(end),),
                )
                require("result" not in end, "result-on-failure", "failed end carries a result")
            else:
                require(end.get("action_status") == "succeeded", "end-message", lambda: "end message %r" % (_show(end),))
                if deco.get("include_result", True):
                    require("result" in end and (end["result"] is got_val), "result-log", lambda: "end message result %r, returned %r" % (end.get("result", "<missing>"), got_val))
                else:
                    require("result" not in end, "result-log", "result logged although include_result=False")
    finally:
        Logger._destinations = saved
    kinds = len(set(p[1] for p in params))
    info["kinds"] = kinds
    info["colliding"] = any(p[0] in ("logger", "action_type", "_serializers", "fields", "args", "kwargs", "result", "task_uuid", "timestamp", "include_args") for p in params)
    return info


def _same(a, b):
    try:
        return a == b and type(a) is type(b)
    except Exception:
        return False


def _show(m):
    return dict((k, v) for k, v in m.items() if k not in ("timestamp", "task_uuid"))


def classify(case, info):
    labels = ["method" if case["method"] else "function", "body:" + case["body"], "form:" + case["deco"]["form"]]
    if case.get("shared_decorator") and case["deco"]["form"] not in ("bare", "direct") and case["deco"].get("include_args") is None:
        labels.append("one-decorator-object-applied-to-two-functions")
    if case.get("inner_decorator"):
        labels.append("under-another-functools.wraps-decorator")
        if case["inner_decorator"] == 2:
            labels.append("inner-wrapper-has-its-own-keyword")
        if case["inner_decorator"] == 3:
            labels.append("log_call-on-log_call")
    if '"$obj"' in canon(case["calls"]):
        labels.append("argument-is-an-instance-of-a-container-subclass")
    if info.get("invalid_include_args"):
        return True, labels + ["invalid-include_args"]
    labels.append("kinds=%d" % info["kinds"])
    if info["uses_defaults"]:
        labels.append("call-uses-defaults")
    if info["colliding"]:
        labels.append("colliding-name")
    if info["unbindable"]:
        labels.append("unbindable-call")
    if info.get("excluded_f4"):
        labels.append("excluded-by-construction:F4")
    if case["deco"].get("include_args") is not None:
        labels.append("include_args" if case["deco"]["include_args"] else "include_args-empty")
    if not case["deco"].get("include_result", True):
        labels.append("include_result=False")
    has_star = any(p[1] in ("var", "varkw") for p in case["params"])
    nontrivial = info["bound"] >= 1 and ((info["kinds"] >= 2 and (info["uses_defaults"] or has_star)) or info["colliding"])
    return bool(nontrivial), labels


class PairList(list):
    """A list subclass with a constructor of its own."""

    def __init__(self, first, second):
        list.__init__(self, [first, second])


def _materialise(v):
    """Argument values that are instances of container subclasses (by tag; cases stay plain data)."""
    import collections

    if isinstance(v, dict) and "$obj" in v:
        kind = v["$obj"]
        if kind == "defaultdict":
            d = collections.defaultdict(int)
            d["a"] += 2
            return d
        if kind == "pairlist":
            return PairList(1, 2)
        if kind == "counter":
            return collections.Counter("aab")
        if kind == "ordereddict":
            return collections.OrderedDict([("b", 1), ("a", 2)])
        if kind == "bytearray":
            return bytearray(b"ab")
        if kind == "frozenset":
            return frozenset([1, 2])
        raise ValueError(kind)
    return v


def values():
    return st.one_of(
        st.integers(-3, 3),
        st.sampled_from([None, True, "s", "", 1.5]),
        st.lists(st.integers(0, 2), max_size=2),
        st.just({"k": 1}),
        st.sampled_from(["defaultdict", "pairlist", "counter", "ordereddict", "bytearray", "frozenset"]).map(lambda k: {"$obj": k}),
    )


def strategy():
    param = st.tuples(st.sampled_from(NAMES), st.sampled_from(["posonly", "pos", "pos", "pos", "var", "kwonly", "kwonly", "varkw"]), st.one_of(st.none(), st.integers(0, 9))).map(list)
    deco = st.builds(
        lambda form, at, ia, ir: {"form": form, "action_type": at, "include_args": ia, "include_result": ir},
        st.sampled_from(["bare", "call", "call", "direct"]),
        st.one_of(st.none(), st.sampled_from(["app:f", "", "x.y"])),
        st.one_of(st.none(), st.none(), st.lists(st.one_of(st.integers(0, 6), st.integers(0, 6), st.sampled_from(["zz", "nope", "self"])), max_size=3)),
        st.sampled_from([True, True, False]),
    )
    call = st.builds(
        lambda args, kwargs: {"args": args, "kwargs": kwargs},
        st.lists(values(), max_size=4),
        st.dictionaries(st.sampled_from(NAMES + ["zz"]), values(), max_size=3),
    )
    return st.builds(
        lambda shared, inner, method, body, deco, params, calls: {"shared_decorator": shared, "inner_decorator": int(inner), "method": method, "body": body, "deco": deco, "params": params, "calls": calls},
        st.sampled_from([0, 0, 1, 2]),
        st.sampled_from([0, 0, 0, 0, 1, 2, 3]),
        st.booleans(),
        st.sampled_from(["sentinel", "locals", "locals", "raise", "raise_falsy"]),
        deco,
        st.lists(param, max_size=5),
        st.lists(call, min_size=1, max_size=4),
    )


def valid_call_strategy():
    """Calls constructed to bind: positional prefix + keywords for the rest."""
    param = st.tuples(st.sampled_from(NAMES), st.sampled_from(["pos", "pos", "pos", "var", "kwonly", "kwonly", "varkw"]), st.one_of(st.none(), st.integers(0, 9))).map(list)

    def calls_for(params):
        counter = [0]
        norm = normalise([list(p) for p in params], True, counter)
        pos = [p for p in norm if p[1] == "pos"]
        kwonly = [p for p in norm if p[1] == "kwonly"]
        has_var = any(p[1] == "var" for p in norm)
        has_varkw = any(p[1] == "varkw" for p in norm)

        def build(npos, skip_defaults, extra_pos, extra_kw, vals):
            vals = list(vals) + [0] * 20
            npos = min(npos, len(pos))
            args = [vals.pop() for _ in range(npos)]
            kwargs = {}
            for p in pos[npos:]:
                if p[2] is not None and skip_defaults:
                    continue
                kwargs[p[0]] = vals.pop()
            for p in kwonly:
                if p[2] is not None and skip_defaults:
                    continue
                kwargs[p[0]] = vals.pop()
            if has_var and npos == len(pos):
                args.extend(vals.pop() for _ in range(extra_pos))
            if has_varkw:
                for i in range(extra_kw):
                    kwargs["extra%d" % i] = vals.pop()
            return {"args": args, "kwargs": kwargs}

        return st.lists(
            st.builds(build, st.integers(0, 5), st.booleans(), st.integers(0, 2), st.integers(0, 2), st.lists(values(), max_size=8)),
            min_size=1,
            max_size=3,
        )

    deco = st.builds(
        lambda form, at, ia, ir: {"form": form, "action_type": at, "include_args": ia, "include_result": ir},
        st.sampled_from(["bare", "call", "direct"]),
        st.one_of(st.none(), st.sampled_from(["app:f", ""])),
        st.one_of(st.none(), st.lists(st.integers(0, 6), max_size=3)),
        st.sampled_from([True, True, False]),
    )
    return st.lists(param, max_size=5).flatmap(
        lambda params: st.builds(
            lambda method, body, deco, calls: {"method": method, "body": body, "deco": deco, "params": params, "calls": calls},
            st.booleans(),
            st.sampled_from(["sentinel", "locals", "raise"]),
            deco,
            calls_for(params),
        )
    )


# ------------------------------------------------ calls made by several threads


def check_threads(case):
    """Two or three threads call one decorated function (their calls include its very first ones) under schedules of
    eliot/_action.py: every call logs exactly its own arguments and returns its own result."""
    import threading
    from .. import sched
    from ..core import HarnessError

    saved = Logger._destinations
    fresh = Destinations()
    Logger._destinations = fresh
    msgs = []
    lock = threading.Lock()

    def dest(m):
        with lock:
            msgs.append(dict(m))

    fresh.add(dest)
    kwargs_deco = {}
    if case.get("include_args") is not None:
        kwargs_deco["include_args"] = list(case["include_args"])

    class Shape(object):
        @log_call(**kwargs_deco)
        def volume(self, width, height=2, *extra, depth=1):
            return (width, height, extra, depth)

    @log_call(**kwargs_deco)
    def volume(width, height=2, *extra, depth=1):
        return (width, height, extra, depth)

    target = Shape().volume if case.get("method") else volume
    results = {}
    try:
        def worker(tid):
            def run():
                for k in range(case["calls"]):
                    tag = 100 * (tid + 1) + k
                    results[tag] = target(tag, tag + 1, depth=tag + 2) if (tid + k) % 2 else target(tag, depth=tag + 2)

            return run

        s = sched.Scheduler(("eliot/_action.py",), case["plan"], opcodes=bool(case.get("opcodes")))
        s.run([worker(i) for i in range(case["threads"])])
    finally:
        Logger._destinations = saved
    for wid, e in s.errors.items():
        if isinstance(e, HarnessError):
            raise e
        raise Violation("decorated-raised", "thread %d: the decorated call raised %r" % (wid, e))
    starts = dict((m["width"], m) for m in msgs if m.get("action_status") == "started" and "width" in m)
    for tag, r in sorted(results.items()):
        two = r[1] == tag + 1
        require(r == (tag, tag + 1 if two else 2, (), tag + 2), "result-altered", lambda: "call %d returned %r" % (tag, r))
        want = {"width": tag, "height": tag + 1 if two else 2, "extra": (), "depth": tag + 2}
        if case.get("include_args") is not None:
            want = dict((k, v) for k, v in want.items() if k in case["include_args"])
        if "width" not in want:
            continue
        got = dict((k, v) for k, v in starts.get(tag, {}).items() if k not in STRUCT)
        require(got == want, "argument-log", lambda: "call %d logged its arguments as %r, Python binds %r" % (tag, got, want))
    n_starts = len([m for m in msgs if m.get("action_status") == "started"])
    require(n_starts == len(results), "message-count", lambda: "%d calls, %d start messages" % (len(results), n_starts))
    inside = s.switched_inside(("logging_wrapper", "log_call", "<genexpr>", "<dictcomp>", "<listcomp>"))
    return {"switches": len(s.switches), "switch_inside": len(inside)}


def classify_threads(case, info):
    labels = ["threads=%d" % case["threads"], "method" if case.get("method") else "function", "switches=%d" % min(info["switches"], 6), "granularity:bytecode" if case.get("opcodes") else "granularity:line"]
    if case.get("include_args") is not None:
        labels.append("include_args")
    if info["switch_inside"]:
        labels.append("preempted-inside-the-wrapper")
    return info["switch_inside"] >= 1, labels


def threads_strategy():
    from .. import sched

    return st.builds(
        lambda opc, method, ia, n, calls, plan: sched.with_granularity({"method": method, "include_args": ia, "threads": n, "calls": calls, "plan": plan}, opc),
        st.sampled_from([False, True]),
        st.booleans(),
        st.sampled_from([None, None, ["width", "depth"], ["width", "height", "extra"]]),
        st.integers(2, 3),
        st.integers(1, 2),
        sched.plans(max_segments=8, max_steps=25, workers=3),
    )


def threads_enum_runner(mod, facet, tier, seed, shard, nshards, stats):
    from ..core import enumerate_cases
    from .. import sched

    cases = []
    for method in (False, True):
        for ia in (None, ["width", "depth"]):
            for plan in sched.single_preemption_plans(2, 40):
                cases.append({"method": method, "include_args": ia, "threads": 2, "calls": 1, "plan": plan})
            for k in range(0, 400 if tier == "thorough" else 110):
                cases.append({"opcodes": True, "method": method, "include_args": ia, "threads": 2, "calls": 1, "plan": [[k, 0], [10**6, 1]]})
    stats.extra["enumerated_plans"] = len(cases)
    enumerate_cases(mod, facet, cases, shard, nshards, stats, exhaustive=True)


def _known_f4(facet, case, violation):
    return bool(case.get("raw")) and any(p[1] == "posonly" for p in case["params"]) and violation.kind in ("accepted-unbindable-call", "body-not-run", "decorated-raised")


def _known_f20(facet, case, violation):
    return bool(case.get("raw")) and any(p[0] == "_call" for p in case["params"]) and violation.kind in ("body-not-run", "decorated-raised", "result-altered", "exception-altered")


KNOWN = {"F4-positional-only": _known_f4, "F20-parameter-named-_call": _known_f20}

FACETS = [
    Facet("random-calls", strategy, check, classify, quick=1500, thorough=150000),
    Facet("valid-calls", valid_call_strategy, check, classify, quick=1500, thorough=150000),
    Facet("threads", threads_strategy, check_threads, classify_threads, quick=150, thorough=8000),
    Facet("threads-enum", None, check_threads, classify_threads, quick=1, thorough=1, quick_shards=8, thorough_shards=16, runner=threads_enum_runner),
]
