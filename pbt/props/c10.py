"""
C10 - the JSON log file holds one valid, faithful line per message.

Domain: message dicts handed to FileDestination directly; JSON-native values,
documented rich types, custom json_default; every file flavour behind a
recording proxy.  Oracle: call log == write(x), flush(); x is one line; the
decoded line equals the independently computed normal form; binary and text
files get the same content.
"""

import io
import json
import os
import tempfile

from hypothesis import strategies as st

from ..core import Facet, Violation, require, canon, setup_path
from .. import values as V

setup_path()
from eliot import FileDestination  # noqa: E402
from eliot.json import json_default as eliot_json_default  # noqa: E402

PROPERTY = "C10"
LEVEL = "exploration"
RULE = (
    "Hypothesis-generated lists of message dicts (recursive JSON-native values: arbitrary Unicode text incl. astral/"
    "control/U+2028, ints in [-2^63, 2^64-1] with boundaries, finite floats incl. -0.0/subnormals/1e308, NaN/Inf, "
    "nesting chains to depth 200, texts of 4 KiB..300 KB around buffer-size boundaries, documented rich types Path/date/"
    "time/datetime/set/complex/tuple, custom json_default extensions incl. one that does not fall back on eliot.json.json_default (with the types the encoder writes by itself) and one that overrides eliot's encoding of set/"
    "complex/Path; consecutive messages that are equal in Python but different JSON (0.0/-0.0, 1/True/1.0) and the same "
    "dict object offered again after an in-place change) x file flavour (real temp file 'ab', 'a' utf-8, unbuffered 'wb', BytesIO, StringIO, TextIOWrapper, codecs.open / codecs.getwriter text files "
    "whose forwarded .mode says 'wb', SpooledTemporaryFile binary/text, a write-through TextIOWrapper over a buffered binary file, a line-buffered text file; optionally "
    "one flush() that fails with BlockingIOError after the line was accepted, or a re-openable wrapper (log rotation between two messages); real "
    "files are re-read by an independent reader after every call) "
    "x default/custom json_default. Non-trivial: the messages contain a non-ASCII or control character, a boundary "
    "number, nesting >= 3, or a rich type. Distinct = distinct canonical JSON of the case."
)
ASSUMPTIONS = [
    "stdlib json.loads is the trusted reader of each line",
    "NumPy/Pandas/Polars/Pydantic encodings are not installable here and are outside the claim",
    "timezone-aware datetime.time values are excluded by construction (open known finding F8) and reproduced separately",
]

FILE_KINDS = ["tmp_ab", "tmp_a", "tmp_wb0", "bytesio", "stringio", "textio", "codecs_open", "codecs_writer", "spooled_b", "spooled_t", "textio_wt", "tmp_line", "tmp_gb18030"]
BINARY_KINDS = ("tmp_ab", "tmp_wb0", "bytesio", "spooled_b")
PATH_KINDS = ("tmp_ab", "tmp_a", "tmp_wb0", "codecs_open", "codecs_writer", "textio_wt", "tmp_line", "tmp_gb18030")


class Proxy(object):
    """Records every call made on the file object and forwards it."""

    def __init__(self, real, flaky_flush=None):
        self._real = real
        self.calls = []
        self.held = []
        self.flushes = 0
        self.flaky_flush = flaky_flush
        self.injected = None

    def __getattr__(self, name):
        # like most file wrappers (codecs, tempfile), other attributes come from the wrapped file
        if name.startswith("__"):
            raise AttributeError(name)
        return getattr(self._real, name)

    def write(self, data):
        # keep what was handed over (by reference) and a snapshot of its content at call time:
        # a file object may legitimately hold on to the argument (queueing transports do)
        snap = bytes(data) if isinstance(data, (bytes, bytearray, memoryview)) else data
        self.calls.append(("write", snap))
        self.held.append((data, snap))
        return self._real.write(data)

    def flush(self):
        self.calls.append(("flush",))
        self.flushes += 1
        if self.flaky_flush is not None and self.flushes == self.flaky_flush:
            # a non-blocking pipe whose reader has fallen behind: the line stays in the buffer
            self.injected = BlockingIOError(11, "write could not complete without blocking", 0)
            raise self.injected
        return self._real.flush()


class Reopenable(object):
    """A log file that can be re-opened (log rotation): write() and flush() go to the file that is current; the other
    attributes are looked up there."""

    def __init__(self, current):
        self._current = current

    def write(self, data):
        return self._current.write(data)

    def flush(self):
        return self._current.flush()

    def __getattr__(self, name):
        if name.startswith("__"):
            raise AttributeError(name)
        return getattr(self._current, name)


def custom_default(o):
    if isinstance(o, V.Custom):
        return {"custom": o.payload}
    return eliot_json_default(o)


def strict_default(o):
    """A caller's json_default that knows its own type only and, as the json/orjson contract says, raises TypeError for the rest."""
    if isinstance(o, V.Custom):
        return {"custom": o.payload}
    raise TypeError("Object of type %s is not JSON serializable" % type(o).__name__)


def override_default(o):
    """A caller's json_default that has its own encoding for types eliot's also knows."""
    if isinstance(o, V.Custom):
        return {"custom": o.payload}
    if isinstance(o, set):
        return {"$set": sorted(o, key=repr)}
    if isinstance(o, complex):
        return "complex(%r, %r)" % (o.real, o.imag)
    import pathlib

    if isinstance(o, pathlib.PurePath):
        return {"$path": list(o.parts)}
    return eliot_json_default(o)


def override_normal(spec):
    """Normal form under override_default (differs from V.normal for set/complex/path)."""
    import pathlib

    if isinstance(spec, list):
        return [override_normal(x) for x in spec]
    if isinstance(spec, dict):
        if V.TAG not in spec:
            return dict((k, override_normal(x)) for k, x in spec.items())
        t = spec[V.TAG]
        if t == "set":
            return {"$set": sorted(spec["v"], key=repr)}
        if t == "complex":
            return "complex(%r, %r)" % (float(spec["v"][0]), float(spec["v"][1]))
        if t == "path":
            return {"$path": list(pathlib.Path(spec["v"]).parts)}
        if t == "custom":
            return {"custom": override_normal(spec["v"])}
        if t == "tuple":
            return [override_normal(x) for x in spec["v"]]
    return V.normal(spec)


def _open(kind, tmpdir):
    path = None
    if kind == "tmp_ab":
        path = os.path.join(tmpdir, "log")
        f = open(path, "ab")
    elif kind == "tmp_a":
        path = os.path.join(tmpdir, "log")
        f = open(path, "a", encoding="utf-8", newline="\n")
    elif kind == "tmp_wb0":
        path = os.path.join(tmpdir, "log")
        f = open(path, "wb", buffering=0)
    elif kind == "bytesio":
        f = io.BytesIO()
    elif kind == "stringio":
        f = io.StringIO(newline="\n")
    elif kind == "textio":
        f = io.TextIOWrapper(io.BytesIO(), encoding="utf-8", newline="\n")
    elif kind == "codecs_open":
        # a text file (write() takes str) whose .mode, forwarded from the underlying stream, says "wb"
        import codecs

        path = os.path.join(tmpdir, "log")
        f = codecs.open(path, "w", "utf-8")
    elif kind == "codecs_writer":
        import codecs

        path = os.path.join(tmpdir, "log")
        f = codecs.getwriter("utf-8")(open(path, "wb"))
    elif kind == "textio_wt":
        # write-through text layer over an ordinary buffered binary file: only an explicit flush reaches the disk
        path = os.path.join(tmpdir, "log")
        f = io.TextIOWrapper(open(path, "wb"), encoding="utf-8", newline="\n", write_through=True)
    elif kind == "tmp_gb18030":
        # a text file in another encoding (one that can hold every code point): what matters is the text handed over
        path = os.path.join(tmpdir, "log")
        f = open(path, "w", encoding="gb18030", newline="\n")
    elif kind == "tmp_line":
        path = os.path.join(tmpdir, "log")
        f = open(path, "w", buffering=1, encoding="utf-8", newline="\n")
    elif kind == "spooled_b":
        f = tempfile.SpooledTemporaryFile(max_size=1 << 14, mode="w+b")
    elif kind == "spooled_t":
        f = tempfile.SpooledTemporaryFile(max_size=1 << 14, mode="w+", encoding="utf-8", newline="\n")
    else:
        raise ValueError(kind)
    return f, path


def _content(kind, f, path):
    if kind == "tmp_gb18030":
        with open(path, "rb") as r:
            return r.read().decode("gb18030").encode("utf-8")
    if path is not None:
        with open(path, "rb") as r:
            return r.read()
    if kind == "bytesio":
        return f.getvalue()
    if kind == "stringio":
        return f.getvalue().encode("utf-8")
    if kind == "textio":
        return f.buffer.getvalue()
    if kind in ("spooled_b", "spooled_t"):
        f.seek(0)
        data = f.read()
        return data if isinstance(data, bytes) else data.encode("utf-8")


def _sanitize(v, counter):
    """Exclude the open finding F9 by construction (and count it)."""
    if isinstance(v, list):
        return [_sanitize(x, counter) for x in v]
    if isinstance(v, dict):
        if v.get(V.TAG) == "time" and 10000 <= v["v"][3] <= 99999:
            counter[0] += 1
            return {V.TAG: "time", "v": v["v"][:3] + [v["v"][3] * 10]}
        return dict((k, _sanitize(x, counter)) for k, x in v.items())
    return v


def check(case):
    counter = [0]
    if not case.get("raw"):
        case = dict(case, msgs=_sanitize(case["msgs"], counter))
    info = {"excluded_f9": counter[0]}
    _check(case)
    return info


def _check(case):
    msgs = case["msgs"]
    kind = case["file"]
    default = case["default"]
    kwargs = {}
    if default == "custom":
        kwargs["json_default"] = custom_default
    elif default == "override":
        kwargs["json_default"] = override_default
    elif default == "strict":
        kwargs["json_default"] = strict_default
    with tempfile.TemporaryDirectory(prefix="c10-") as tmpdir:
        f, path = _open(kind, tmpdir)
        try:
            proxy = Proxy(f, case.get("flaky_flush"))
            rotate_after = case.get("rotate_after") if path is not None else None
            target = Reopenable(proxy) if rotate_after is not None else proxy
            dest = FileDestination(file=target, **kwargs)
            rotated = None
            # the other mode, for the cross-mode clause
            other_real = io.StringIO(newline="\n") if kind in BINARY_KINDS else io.BytesIO()
            other = Proxy(other_real)
            other_dest = FileDestination(file=other, **kwargs)
            binary = kind in BINARY_KINDS
            for p in (proxy, other):
                for c in p.calls:
                    require(
                        c == ("write", b"") or c == ("write", ""),
                        "construction-writes",
                        "FileDestination construction wrote %r" % (c,),
                    )
                del p.calls[:]
            expected_total = b""
            previous = None
            for spec in msgs:
                if isinstance(spec, dict) and spec.get(V.TAG) == "again-mutated":
                    # the very same dict object, offered again after a nested value changed in place
                    if previous is None or not isinstance(previous[0].get("nest"), list):
                        continue
                    previous[0]["nest"].append(spec["v"])
                    previous[1]["nest"] = previous[1]["nest"] + [spec["v"]]
                    message, spec = previous
                else:
                    message = V.decode(spec)
                    previous = (message, dict(spec)) if isinstance(spec, dict) and isinstance(spec.get("nest"), list) else None
                snapshot = canon(spec)
                try:
                    try:
                        dest(message)
                    except BlockingIOError as e:
                        # the file's own failure may reach the caller (Destinations.send reports it); the line was
                        # handed over once all the same
                        if e is not proxy.injected:
                            raise
                        proxy.injected = None
                    other_dest(V.decode(spec) if message is not (previous or [None])[0] else dict(message))
                except Exception as e:
                    raise Violation("raised", "FileDestination raised %r for message %s" % (e, canon(spec)[:300]))
                calls = proxy.calls[:]
                del proxy.calls[:]
                ok_calls = len(calls) == 2 and calls[0][0] == "write" and calls[1] == ("flush",)
                if case.get("flaky_flush") and len(calls) > 2:
                    # after a flush that would block, flushing again is fine; writing the line again is not
                    ok_calls = calls[0][0] == "write" and all(c == ("flush",) for c in calls[1:])
                require(
                    ok_calls,
                    "call-discipline",
                    lambda: "expected write(x), flush(); got %r" % ([c[0] if len(c) == 1 else (c[0], c[1][:60]) for c in calls],),
                )
                x = calls[0][1]
                if binary:
                    require(isinstance(x, bytes), "mode", "binary file got %r" % type(x))
                    raw = x
                else:
                    require(isinstance(x, str), "mode", "text file got %r" % type(x))
                    try:
                        raw = x.encode("utf-8")
                    except UnicodeEncodeError as e:
                        raise Violation("not-utf8", repr(e))
                require(raw.endswith(b"\n"), "line-end", "line does not end with newline: %r" % raw[-20:])
                require(raw.count(b"\n") == 1 and b"\r" not in raw, "line-breaks", "line contains extra line breaks: %r" % raw[:200])
                try:
                    text = raw.decode("utf-8")
                    obj = json.loads(text)
                except ValueError as e:
                    raise Violation("invalid-json", "%r: %r" % (e, raw[:200]))
                require(isinstance(obj, dict), "not-object", repr(obj)[:100])
                if default == "override":
                    want = override_normal(spec)
                    got = obj
                else:
                    want = V.normal(spec)
                    got = V.observed_normal(obj, spec)
                require(
                    canon(got) == canon(want),
                    "content",
                    lambda: "decoded line differs: got %s want %s" % (canon(got)[:400], canon(want)[:400]),
                )
                # other mode got the same content
                ocalls = other.calls[:]
                del other.calls[:]
                require(len(ocalls) == 2 and ocalls[0][0] == "write", "call-discipline", "other mode: %r" % (ocalls,))
                ox = ocalls[0][1]
                oraw = ox if isinstance(ox, bytes) else ox.encode("utf-8")
                require(
                    json.loads(oraw.decode("utf-8")) == obj and (oraw == raw or set(V.features(spec)["rich"]) & {"set"}),
                    "cross-mode",
                    lambda: "binary and text content differ: %r vs %r" % (raw[:200], oraw[:200]),
                )
                expected_total += raw
                require(snapshot == canon(spec), "harness", "spec mutated")
                if path is not None and not case.get("flaky_flush"):
                    # a reader never sees a partial or missing line between logging calls
                    with open(path, "rb") as reader:
                        on_disk = reader.read()
                    if kind == "tmp_gb18030":
                        on_disk = on_disk.decode("gb18030").encode("utf-8")
                    require(on_disk == expected_total, "not-on-disk", lambda: "after the call returned the file holds %r, expected %r" % (on_disk[-120:], expected_total[-120:]))
                if rotate_after is not None and rotated is None and msgs.index(spec) >= rotate_after if spec in msgs else False:
                    # log rotation: the file is renamed and the wrapper re-opened on a fresh one
                    f.close()
                    os.rename(path, path + ".1")
                    rotated = expected_total
                    expected_total = b""
                    f, _ = _open(kind, tmpdir)
                    proxy = Proxy(f, None)
                    target._current = proxy
            if hasattr(f, "flush"):
                pass
            for ref, snap in proxy.held + other.held:
                now = bytes(ref) if isinstance(ref, (bytes, bytearray, memoryview)) else ref
                require(now == snap, "write-argument-mutated", lambda: "an object handed to file.write() was changed afterwards: %r -> %r" % (snap[:80], now[:80]))
            if case.get("flaky_flush"):
                f.flush()
            content = _content(kind, f, path)
            require(content == expected_total, "file-content", lambda: "file holds %r, writes were %r" % (content[:200], expected_total[:200]))
            if rotated is not None:
                with open(path + ".1", "rb") as old_file:
                    old_content = old_file.read()
                if kind == "tmp_gb18030":
                    old_content = old_content.decode("gb18030").encode("utf-8")
                require(old_content == rotated, "file-content", lambda: "rotated file holds %r, writes before the rotation were %r" % (old_content[:200], rotated[:200]))
        finally:
            try:
                f.close()
            except Exception:
                pass
    return None


def classify(case, info):
    feats = V.features(case["msgs"])
    labels = ["file:" + case["file"], "default:" + case["default"]]
    if case.get("flaky_flush"):
        labels.append("one-flush-would-block")
    if case.get("rotate_after") is not None and case["file"] in PATH_KINDS:
        labels.append("file-re-opened-between-messages")
    if info and info.get("excluded_f9"):
        labels.append("excluded-by-construction:F9")
    if feats["nonascii"]:
        labels.append("nonascii")
    if feats["control"]:
        labels.append("control-char")
    if feats["boundary"]:
        labels.append("boundary-number")
    if feats["depth"] >= 4:
        labels.append("nesting>=3")
    if feats["depth"] >= 50:
        labels.append("nesting>=50")
    for r in feats["rich"]:
        if r != "again-mutated":
            labels.append("rich:" + r)
    if any(isinstance(m, dict) and m.get(V.TAG) == "again-mutated" for m in case["msgs"]):
        labels.append("same-dict-again-after-mutation")
    if feats.get("big"):
        labels.append("message>=8KiB")
    nontrivial = bool(feats["nonascii"] or feats["control"] or feats["boundary"] or feats["depth"] >= 4 or feats["rich"])
    return nontrivial, labels


def twin(spec):
    """A message that is == in Python but a different JSON document (0.0/-0.0, 1/True/1.0)."""
    def flip(v):
        if isinstance(v, bool):
            return int(v), True
        if isinstance(v, int) and abs(v) < 2**52:
            return float(v), True
        if isinstance(v, float) and v == 0.0:
            return -v, True
        if isinstance(v, float) and v == int(v) and abs(v) < 2**52:
            return int(v), True
        if isinstance(v, list):
            out, done = [], False
            for x in v:
                if not done:
                    x, done = flip(x)
                out.append(x)
            return out, done
        if isinstance(v, dict) and V.TAG not in v:
            out, done = {}, False
            for k, x in v.items():
                if not done:
                    x, done = flip(x)
                out[k] = x
            return out, done
        return v, False

    return flip(spec)[0]


def with_twins(msgs, picks):
    out = []
    for i, m in enumerate(msgs):
        out.append(m)
        if i < len(picks) and picks[i] == 1:
            out.append(twin(m))
        elif i < len(picks) and picks[i] == 2:
            out.append(dict(m))  # an equal message again
        elif i < len(picks) and picks[i] == 3:
            base = dict(m, nest=[1])
            out[-1] = base
            out.append({V.TAG: "again-mutated", "v": i})
    return out


def message_specs(custom, native_only=False):
    return st.dictionaries(V.keys(), st.one_of(V.rich_tree(8, custom=custom, native_only=native_only), V.rich_tree(8, custom=custom, native_only=native_only), V.bigtexts()), max_size=5)


def strategy():
    # small draws first: a large message list must not starve the later draws
    return st.one_of(
        st.builds(
            lambda f, flaky, rot, picks, msgs: {"msgs": with_twins(msgs, picks), "file": f, "default": "eliot", "flaky_flush": flaky, "rotate_after": rot if flaky is None else None},
            st.sampled_from(FILE_KINDS),
            st.sampled_from([None, None, None, 1, 2, 3]),
            st.sampled_from([None, None, 0, 1]),
            st.lists(st.sampled_from([0, 0, 1, 1, 2, 3]), max_size=4),
            st.lists(st.one_of(message_specs(False), st.dictionaries(V.keys(), st.sampled_from([0, 0.0, -0.0, 1, True, 1.0, 3, 3.0, [0.0], {"z": 1}]), min_size=1, max_size=3)), min_size=1, max_size=4),
        ),
        st.builds(
            lambda f, d, msgs: {"msgs": msgs, "file": f, "default": d},
            st.sampled_from(FILE_KINDS),
            st.sampled_from(["custom", "override"]),
            st.lists(message_specs(True), min_size=1, max_size=4),
        ),
        # a json_default that does not fall back on eliot's: dates, times and tuples are written by the encoder itself
        st.builds(
            lambda f, msgs: {"msgs": msgs, "file": f, "default": "strict"},
            st.sampled_from(FILE_KINDS),
            st.lists(message_specs(True, native_only=True), min_size=1, max_size=4),
        ),
    )


def _known_f8(facet, case, violation):
    return "awaretime" in canon(case) and violation.kind == "raised" and "tzinfo" in str(violation.detail)


def _known_f9(facet, case, violation):
    def bad(v):
        if isinstance(v, list):
            return any(bad(x) for x in v)
        if isinstance(v, dict):
            if v.get(V.TAG) == "time":
                return 10000 <= v["v"][3] <= 99999
            return any(bad(x) for x in v.values())
        return False

    return bool(case.get("raw")) and violation.kind == "content" and bad(case["msgs"])


def _known_f21(facet, case, violation):
    # the installed orjson refuses more than 254 nested containers
    return bool(case.get("raw")) and violation.kind == "raised" and "Recursion limit reached" in str(violation.detail)


KNOWN = {"F8-aware-time": _known_f8, "F9-time-fraction": _known_f9, "F21-nesting-limit": _known_f21}

# ------------------------------------------------- messages offered from inside a write


class _Interrupting(object):
    """A file object during one of whose write()/flush() calls a signal handler of the program runs and logs something
    itself (through the same destination, or through another file destination of the process)."""

    def __init__(self, real, when, handler):
        self._real = real
        self._when = when  # (call name, ordinal, before?)
        self._handler = handler
        self._seen = {"write": 0, "flush": 0}
        self.writes = []

    def _maybe(self, name, before):
        if self._handler is not None and self._when == [name, self._seen[name], before]:
            handler, self._handler = self._handler, None
            handler()

    def write(self, data):
        self._maybe("write", True)
        self.writes.append(data)
        r = self._real.write(data)
        self._maybe("write", False)
        self._seen["write"] += 1
        return r

    def flush(self):
        self._maybe("flush", True)
        r = self._real.flush()
        self._maybe("flush", False)
        self._seen["flush"] += 1
        return r


def check_reentrant(case):
    binary = case["binary"]
    real = io.BytesIO() if binary else io.StringIO(newline="\n")
    other_real = io.BytesIO()
    n = case["n"]
    holder = {}

    def handler():
        holder["dest"]({"signal": "handled", "n": -1})

    f = _Interrupting(real, None, handler)
    dest = FileDestination(file=f)
    other = FileDestination(file=other_real)
    holder["dest"] = dest if case["same"] else other
    del f.writes[:]
    f._seen = {"write": 0, "flush": 0}
    f._when = [case["call"], case["at"] % n, bool(case["before"])]
    for i in range(n):
        try:
            dest({"i": i, "text": "line %d" % i})
        except Exception as e:
            raise Violation("raised", "FileDestination raised %r for message %d while a signal handler logged during its %s" % (e, i, case["call"]))
    require(f._handler is None, "harness", "the interruption point was never reached")

    def lines_of(stream):
        data = stream.getvalue()
        if isinstance(data, str):
            data = data.encode("utf-8")
        require(data.endswith(b"\n") or not data, "partial-line", lambda: "file does not end with a newline: %r" % data[-40:])
        out = []
        for raw in data.split(b"\n")[:-1]:
            try:
                out.append(json.loads(raw))
            except ValueError:
                raise Violation("torn-line", "not a JSON line: %r" % raw[:120])
        return out

    got = lines_of(real)
    want = [{"i": i, "text": "line %d" % i} for i in range(n)]
    extra = {"signal": "handled", "n": -1}
    if case["same"]:
        require(sorted(map(canon, got)) == sorted(map(canon, want + [extra])), "lines", lambda: "file has %r, offered %r" % (got, want + [extra]))
        require([g for g in got if "i" in g] == want, "order", lambda: "order of the main program's lines changed: %r" % (got,))
    else:
        require(got == want, "lines", lambda: "file has %r, offered %r" % (got, want))
        require(lines_of(other_real) == [extra], "lines", lambda: "the other destination's file has %r" % (other_real.getvalue(),))
    for w in f.writes:
        b = w.encode("utf-8") if isinstance(w, str) else bytes(w)
        require(b.endswith(b"\n") and b.count(b"\n") == 1, "write-not-one-line", lambda: "a write() call handed over %r" % b[:120])
    return {"n": n}


def classify_reentrant(case, info):
    return True, ["binary" if case["binary"] else "text", "same-destination" if case["same"] else "another-file-destination", "during-%s:%s" % (case["call"], "before" if case["before"] else "after")]


def reentrant_runner(mod, facet, tier, seed, shard, nshards, stats):
    from ..core import enumerate_cases

    cases = []
    for binary in (True, False):
        for same in (True, False):
            for call in ("write", "flush"):
                for before in (True, False):
                    for n, at in ((1, 0), (3, 0), (3, 1), (3, 2)):
                        cases.append({"binary": binary, "same": same, "call": call, "before": before, "n": n, "at": at})
    enumerate_cases(mod, facet, cases, shard, nshards, stats, exhaustive=True)


FACETS = [
    Facet("file", strategy, check, classify, quick=2400, thorough=300000),
    Facet("reentrant", None, check_reentrant, classify_reentrant, quick=1, thorough=1, quick_shards=2, thorough_shards=2, runner=reentrant_runner),
]
