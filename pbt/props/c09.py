"""
C09 - parsing is order-independent and detects task completeness exactly.

Domain: message sets of well-formed tasks (synthetic writer of well-formed
levels, and real eliot runs of generated programs) x arrival orders (all
permutations for small sets, generated ones otherwise) x subsets (all for
small sets) x interleavings of several tasks.
"""

import itertools

from hypothesis import strategies as st
from pyrsistent import pmap

from ..core import Facet, Violation, require, canon, setup_path
from .. import reftree

setup_path()
from eliot.parse import Parser  # noqa: E402

PROPERTY = "C09"
LEVEL = "exploration"
RULE = (
    "Well-formed tasks from (a) real eliot runs of generated logging programs (nested/failed actions, remote sub-tasks, "
    "context-less messages, several tasks) and (b) an independent synthetic writer of well-formed task levels (nested up to "
    "depth 5, and wide actions with up to 24 children so that positions reach two digits; every third plain message carries a "
    "user field named action_status); over them "
    "ALL permutations of arrival order when the set has <= 6 (quick) / 7 (thorough) messages, otherwise Hypothesis-"
    "generated permutations and task interleavings; ALL subsets when <= 9 (quick) / 12 (thorough) messages, otherwise "
    "generated subsets. Oracles: Task equality across orders, equality with an independent reference tree, completion "
    "reported exactly at the last message of a task and once (Parser.add, and parse_stream reading a lazy source: yielded "
    "when exactly that many messages were read), proper subsets never complete, parse_stream yields every uuid once with "
    "incomplete ones last. Non-trivial: >= 5 messages with depth >= 2 and (an order delivering a descendant "
    "before its ancestor's start, or a subset missing an inner message). Distinct = canonical JSON of the case."
)
ASSUMPTIONS = [
    "ill-formed streams (duplicate levels, messages after an action's end) are outside the quantifier and not generated",
    "the reference tree builder (pbt/reftree.py) is trusted",
]

import os

_THOROUGH = os.environ.get("VERIF_TIER_INTERNAL") == "thorough"


# ---------------------------------------------------------------- synthetic


def tree_shapes(max_depth=4, width=3):
    """Depth-driven shapes: an action at depth d has at least one child action of depth d-1."""
    status = st.sampled_from(["succeeded", "failed"])

    def level(d):
        if d <= 0:
            kids = st.lists(st.just("m"), max_size=width)
        else:
            below = level(d - 1)
            side = st.lists(st.one_of(st.just("m"), level(0)), max_size=width - 1)
            kids = st.tuples(side, below, side).map(lambda p: p[0] + [p[1]] + p[2])
        return st.builds(lambda kids, status: {"kids": kids, "status": status}, kids, status)

    def wide(n_kids, action_positions, sub):
        # one action with many children (positions reach two digits), some of them sub-actions
        kids = ["m"] * n_kids
        for p_ in action_positions:
            kids[p_ % n_kids] = sub
        return {"kids": kids, "status": "succeeded"}

    wide_shapes = st.builds(
        wide,
        st.integers(9, 24),
        st.lists(st.integers(0, 23), min_size=2, max_size=5),
        st.one_of(level(0), level(1)),
    )
    return st.one_of(st.just("m"), st.integers(0, max_depth).flatmap(level), st.integers(1, max_depth).flatmap(level), wide_shapes)


def shapes_with(n, memo={}):
    """All action shapes with exactly n messages (start + end + children)."""
    if n in memo:
        return memo[n]
    out = []
    if n >= 2:
        for kids in child_seqs(n - 2):
            out.append({"kids": kids, "status": "failed" if (len(out) % 3 == 1) else "succeeded"})
    memo[n] = out
    return out


def child_seqs(total):
    if total == 0:
        return [[]]
    out = []
    for first in range(1, total + 1):
        heads = ["m"] if first == 1 else shapes_with(first)
        for h in heads:
            for rest in child_seqs(total - first):
                out.append([h] + rest)
    return out


CLOCKS = ["monotone", "running-backwards", "sub-trees-logged-by-hosts-whose-clock-is-behind", "standing-still"]


def write_task(shape, uuid, clock=0):
    """Independent writer of a well-formed task's messages (emission order).  Timestamps are whatever the clocks of the
    hosts that logged the parts of the task said: nothing about a task's shape depends on them."""
    out = []
    counter = [0]

    def emit(level, extra):
        counter[0] += 1
        ts = [float(counter[0]), 1000.0 - counter[0], counter[0] - 50.0 * len(level), 5.0][clock % 4]
        m = {"task_uuid": uuid, "task_level": list(level), "timestamp": ts, "n": counter[0]}
        m.update(extra)
        out.append(m)

    def action(node, prefix, atype):
        pos = 1
        emit(prefix + [pos], {"action_type": atype, "action_status": "started"})
        for kid in node["kids"]:
            pos += 1
            if kid == "m":
                extra = {"message_type": "msg"}
                if (counter[0] + len(prefix)) % 3 == 0:
                    # an ordinary message may carry a user field of this name (only action_type marks action messages)
                    extra["action_status"] = "succeeded" if counter[0] % 2 else "started"
                emit(prefix + [pos], extra)
            else:
                action(kid, prefix + [pos], "act%d" % len(prefix))
        pos += 1
        end = {"action_type": atype, "action_status": node["status"]}
        if node["status"] == "failed":
            end["exception"] = "builtins.ValueError"
            end["reason"] = "boom"
        emit(prefix + [pos], end)

    if shape == "m":
        emit([1], {"message_type": "lonely"})
    else:
        action(shape, [], "root")
    return out


# ------------------------------------------------------------------ oracle


def _perm_from_keys(n, keys):
    idx = list(range(n))
    ks = list(keys) + [0] * n
    return sorted(idx, key=lambda i: (ks[i], i))


def check_messages(tasks_msgs, orders, subsets, perm_limit, subset_limit):
    """
    @param tasks_msgs: list of message lists, one per well-formed task.
    @param orders: list of key lists defining permutations of all messages.
    @param subsets: list of bitmasks (ints) over all messages.
    """
    full = [m for t in tasks_msgs for m in t]
    n = len(full)
    uuids = [t[0]["task_uuid"] for t in tasks_msgs]
    require(len(set(uuids)) == len(uuids), "harness", "duplicate uuids")
    size = dict((u, len(t)) for u, t in zip(uuids, tasks_msgs))
    ref = reftree.build(full)
    ref_plain = dict((u, reftree.plain(r)) for u, r in ref.items())
    info = {"n": n, "exhaustive_perms": False, "exhaustive_subsets": False, "desc_before_anc": False, "inner_missing": False}
    depth = max(len(m["task_level"]) for m in full)
    info["depth"] = depth

    # (1)-(3): arrival orders
    if n <= perm_limit:
        perms = itertools.permutations(range(n))
        info["exhaustive_perms"] = True
    else:
        perms = [list(range(n)), list(reversed(range(n)))] + [_perm_from_keys(n, k) for k in orders]
    canonical = {}
    nperm = 0
    for perm in perms:
        nperm += 1
        parser = Parser()
        seen = dict((u, 0) for u in uuids)
        done = {}
        started_seen = set()
        for i in perm:
            m = full[i]
            u = m["task_uuid"]
            seen[u] += 1
            lvl = tuple(m["task_level"])
            if "action_type" in m and m.get("action_status") == "started":
                started_seen.add((u, lvl[:-1]))
            elif len(lvl) > 1 and not info["desc_before_anc"]:
                # descendant delivered before the start of some ancestor?
                for d in range(len(lvl) - 1):
                    if (u, lvl[:d]) not in started_seen:
                        info["desc_before_anc"] = True
                        break
            try:
                if nperm % 4 == 3:
                    # the message as another Mapping (what eliot's own WrittenMessage.as_dict() returns): a parser may
                    # refuse it loudly (then a plain dict is used), but it must not drop it silently
                    try:
                        completed, parser = parser.add(pmap(m))
                    except (TypeError, AttributeError):
                        info["pmap_refused"] = True
                        completed, parser = parser.add(m)
                else:
                    completed, parser = parser.add(m)
                if isinstance(completed, list):
                    raw_list = completed
                    completed = list(raw_list)
                    raw_list.append("the caller's own entry")
            except Exception as e:
                raise Violation("parser-raised", "Parser.add raised %r on order %r at message %r" % (e, list(perm), m))
            last = seen[u] == size[u]
            stale = [t for t in completed if not hasattr(t, "root")]
            require(not stale, "foreign-entry-returned", lambda: "order %r: add() returned %r among the completed tasks (what an earlier caller put into the list it was given)" % (list(perm), stale[:2]))
            got = [t.root().task_uuid if hasattr(t.root(), "task_uuid") else None for t in completed]
            if last:
                require(
                    len(completed) == 1 and got == [u],
                    "completion-late",
                    lambda: "order %r: last message of %s arrived but add() returned %r" % (list(perm), u, got),
                )
                require(u not in done, "completion-twice", "task %s completed twice" % u)
                done[u] = completed[0]
            else:
                require(
                    completed == [],
                    "completion-early",
                    lambda: "order %r: add() reported %r complete after %d of %d messages of %s"
                    % (list(perm), got, seen[u], size[u], u),
                )
        require(parser.incomplete_tasks() == [], "leftover", "incomplete tasks left after all messages: %r" % (parser.incomplete_tasks(),))
        if nperm <= 2 or nperm % 5 == 0:
            # the same order through parse_stream reading a lazy (live) source: a task is yielded when its last
            # message has been read, not when some later message arrives
            consumed = [0]
            order = list(perm)

            def live():
                for i in order:
                    consumed[0] += 1
                    yield full[i]

            last_pos = {}
            for pos, i in enumerate(order):
                last_pos[full[i]["task_uuid"]] = pos + 1
            yielded = []
            try:
                for t in Parser.parse_stream(live()):
                    require(hasattr(t, "root"), "foreign-entry-returned", lambda: "parse_stream yielded %r (something an earlier caller of Parser.add put into the list it was given)" % (t,))
                    u = t.root().task_uuid
                    yielded.append(u)
                    require(t.is_complete(), "stream-incomplete", lambda: "parse_stream yielded %s incomplete although all its messages are in the stream" % u)
                    require(
                        consumed[0] == last_pos[u],
                        "completion-late",
                        lambda: "order %r: parse_stream yielded %s after reading %d messages; its last message was number %d" % (order, u, consumed[0], last_pos[u]),
                    )
            except Violation:
                raise
            except Exception as e:
                raise Violation("parse_stream-raised", "%r on order %r" % (e, order))
            require(sorted(yielded) == sorted(uuids), "yield-once", lambda: "parse_stream yielded %r for uuids %r" % (yielded, sorted(uuids)))
            info["live_streams"] = info.get("live_streams", 0) + 1
        for u in uuids:
            t = done[u]
            require(t.is_complete(), "complete-flag", "returned task not is_complete()")
            if u not in canonical:
                canonical[u] = t
                got_plain = reftree.plain_written(t.root())
                require(
                    canon(got_plain) == canon(ref_plain[u]),
                    "tree-differs-from-reference",
                    lambda: "parser %s reference %s" % (canon(got_plain)[:600], canon(ref_plain[u])[:600]),
                )
            else:
                require(
                    t == canonical[u],
                    "order-dependent",
                    lambda: "Task for %s differs between arrival orders (order %r): %s vs %s"
                    % (u, list(perm), canon(reftree.plain_written(t.root()))[:500], canon(reftree.plain_written(canonical[u].root()))[:500]),
                )
    info["perms"] = nperm

    # (4)-(5): subsets
    if n <= subset_limit:
        masks = range(1, 2**n)
        info["exhaustive_subsets"] = True
    else:
        masks = [s % (2**n) for s in subsets]
    nsub = 0
    for mask in masks:
        if mask == 0:
            continue
        nsub += 1
        sub = [full[i] for i in range(n) if mask >> i & 1]
        if len(orders) and nsub % 3 == 0:
            keys = orders[nsub % len(orders)]
            sub = [sub[i] for i in _perm_from_keys(len(sub), keys)]
        present = {}
        for m in sub:
            present[m["task_uuid"]] = present.get(m["task_uuid"], 0) + 1
        try:
            tasks = list(Parser.parse_stream(iter(sub)))
        except Exception as e:
            raise Violation("parse_stream-raised", "%r on subset %r" % (e, [(m["task_uuid"], m["task_level"]) for m in sub]))
        sref = reftree.build(sub)
        got_uuids = []
        seen_incomplete = False
        for t in tasks:
            root = t.root()
            u = root.task_uuid
            got_uuids.append(u)
            full_task = present[u] == size[u]
            if not full_task:
                info["inner_missing"] = True
            require(
                t.is_complete() == full_task,
                "subset-completeness",
                lambda: "task %s has %d of %d messages but is_complete()=%r; subset levels %r"
                % (u, present[u], size[u], t.is_complete(), [m["task_level"] for m in sub if m["task_uuid"] == u]),
            )
            require(t.is_complete() == reftree.complete(sref[u]), "subset-completeness-ref", "disagrees with reference")
            if not t.is_complete():
                seen_incomplete = True
            else:
                pass
            gp = reftree.plain_written(root)
            require(
                canon(gp) == canon(reftree.plain(sref[u])),
                "partial-tree-differs",
                lambda: "subset tree: parser %s reference %s" % (canon(gp)[:600], canon(reftree.plain(sref[u]))[:600]),
            )
        require(sorted(got_uuids) == sorted(present), "yield-once", "parse_stream yielded %r for uuids %r" % (got_uuids, sorted(present)))
    info["subsets"] = nsub
    return info


def limits():
    return (7, 12) if _THOROUGH else (6, 9)


def check_synth(case):
    tasks = [write_task(shape, "task-%d" % i, case.get("clock", 0) + i) for i, shape in enumerate(case["shapes"])]
    pl, sl = limits()
    return check_messages(tasks, case["orders"], case["subsets"], pl, sl)


def classify(case, info):
    labels = ["n=%s" % min(info["n"], 15) if info["n"] < 15 else "n>=15", "depth=%d" % min(info["depth"], 6), "tasks=%d" % len(case.get("shapes", case.get("tasks", [])))]
    if "shapes" in case:
        labels.append("clock:" + CLOCKS[case.get("clock", 0) % 4])
    if info["exhaustive_perms"]:
        labels.append("all-permutations")
    if info["exhaustive_subsets"]:
        labels.append("all-subsets")
    if info["desc_before_anc"]:
        labels.append("descendant-before-ancestor-start")
    if info["inner_missing"]:
        labels.append("subset-missing-message")
    nontrivial = info["n"] >= 5 and info["depth"] >= 3 and (info["desc_before_anc"] or info["inner_missing"])
    return nontrivial, labels


def orders_strategy():
    return st.lists(st.lists(st.integers(0, 30), max_size=30), min_size=1, max_size=6)


def synth_strategy():
    return st.builds(
        lambda clock, orders, subsets, shapes: {"clock": clock, "shapes": shapes, "orders": orders, "subsets": subsets},
        st.integers(0, 3),
        orders_strategy(),
        st.lists(st.integers(1, 2**40), max_size=12),
        st.lists(tree_shapes(4), min_size=1, max_size=3),
    )


def enumerated_runner(mod, facet, tier, seed, shard, nshards, stats):
    """ALL shapes with <= N messages x ALL permutations x ALL subsets."""
    from ..core import enumerate_cases

    top = 7 if tier == "thorough" else 6
    cases = [{"shapes": ["m"], "orders": [], "subsets": []}]
    for n in range(2, top + 1):
        for shape in shapes_with(n):
            cases.append({"shapes": [shape], "orders": [], "subsets": []})
    # two-task interleavings of the smallest shapes (total <= top)
    for a in range(1, top):
        for b in range(1, top - a + 1):
            for sa in (["m"] if a == 1 else shapes_with(a)):
                for sb in (["m"] if b == 1 else shapes_with(b)):
                    cases.append({"shapes": [sa, sb], "orders": [], "subsets": []})
    for i, c in enumerate(cases):
        c["clock"] = i % 4
    stats.extra["enumerated_shapes_up_to_messages"] = top
    enumerate_cases(mod, facet, cases, shard, nshards, stats)


# ------------------------------------------------- real eliot-emitted tasks


def check_real(case):
    from .. import programs

    run = programs.run_program(case["program"], sink="memory")
    by_uuid = {}
    for m in run.messages:
        by_uuid.setdefault(m["task_uuid"], []).append(m)
    # only the structural + identifying fields matter to the parser; keep all
    tasks = [by_uuid[u] for u in by_uuid]
    if not tasks:
        return {"n": 0, "depth": 0, "exhaustive_perms": False, "exhaustive_subsets": False, "desc_before_anc": False, "inner_missing": False, "perms": 0, "subsets": 0}
    pl, sl = limits()
    info = check_messages(tasks, case["orders"], case["subsets"], pl, min(sl, 8))
    info["remote"] = run.stats.get("remote", 0)
    return info


def classify_real(case, info):
    if info["n"] == 0:
        return False, ["empty"]
    nt, labels = classify({"tasks": [0] * 1}, info)
    if info.get("remote"):
        labels.append("remote-subtask")
    return nt, labels


def real_strategy():
    from .. import programs

    return st.builds(
        lambda orders, subsets, p: {"program": p, "orders": orders, "subsets": subsets},
        orders_strategy(),
        st.lists(st.integers(1, 2**40), max_size=8),
        programs.programs(max_nodes=8, faults=False, max_depth=3),
    )


# ------------------------------------------------------------------- depth


def check_deep(case):
    """A single chain of nested actions, `depth` deep, in emission order and reversed."""
    depth = case["depth"]
    msgs = []
    level = []
    n = 0
    for d in range(depth):
        n += 1
        msgs.append({"task_uuid": "deep", "task_level": level + [1], "timestamp": float(n), "action_type": "a%d" % d, "action_status": "started"})
        level = level + [2]
    for d in reversed(range(depth)):
        level = level[:-1]
        n += 1
        msgs.append({"task_uuid": "deep", "task_level": level + [3 if d < depth - 1 else 2], "timestamp": float(n), "action_type": "a%d" % d, "action_status": "succeeded"})
    # any subset parses: the innermost start message on its own
    try:
        alone = list(Parser.parse_stream(iter([msgs[depth - 1]])))
    except RecursionError:
        raise Violation("parser-recursion", "parse_stream raised RecursionError for the single start message of an action nested %d deep" % depth)
    except Exception as e:
        raise Violation("parse_stream-raised", "%r for one message nested %d deep" % (e, depth))
    require(len(alone) == 1 and not alone[0].is_complete(), "deep-incomplete", "a lone inner message must parse to one incomplete task")
    for order in (msgs, list(reversed(msgs))):
        try:
            tasks = list(Parser.parse_stream(iter(order)))
        except RecursionError as e:
            raise Violation("parser-recursion", "parse_stream raised RecursionError for a task nested %d deep (%d messages)" % (depth, len(msgs)))
        except Exception as e:
            raise Violation("parse_stream-raised", "%r for a task nested %d deep" % (e, depth))
        require(len(tasks) == 1 and tasks[0].is_complete(), "deep-incomplete", lambda: "a complete task nested %d deep parsed into %d tasks, complete=%r" % (depth, len(tasks), [t.is_complete() for t in tasks]))
        node = tasks[0].root()
        seen = 0
        while True:
            seen += 1
            kids = [c for c in node.children]
            if not kids:
                break
            require(len(kids) == 1, "deep-shape", "a chain node has %d children" % len(kids))
            node = kids[0]
        require(seen == depth, "deep-shape", lambda: "chain of %d actions parsed to depth %d" % (depth, seen))
    return {"depth": depth}


def classify_deep(case, info):
    return info["depth"] >= 50, ["depth=%d" % info["depth"]]


def deep_runner(mod, facet, tier, seed, shard, nshards, stats):
    from ..core import enumerate_cases

    # bounded by construction: beyond a few hundred levels the parser's recursion exceeds CPython's default limit
    # (open known finding F18)
    cases = [{"depth": d} for d in (1, 2, 3, 10, 30, 60, 90, 120)]
    stats.extra["excluded_by_construction"] = "depth > 120 (F18)"
    enumerate_cases(mod, facet, cases, shard, nshards, stats, exhaustive=True)


def _known_f18(facet, case, violation):
    return facet == "deep" and violation.kind == "parser-recursion" and case.get("depth", 0) > 120


KNOWN = {"F18-parser-recursion-depth": _known_f18}

FACETS = [
    Facet("enumerated", None, check_synth, classify, quick=1, thorough=1, quick_shards=8, thorough_shards=16, runner=enumerated_runner),
    Facet("synthetic", synth_strategy, check_synth, classify, quick=250, thorough=5000),
    Facet("deep", None, check_deep, classify_deep, quick=1, thorough=1, quick_shards=4, thorough_shards=4, runner=deep_runner),
    Facet("real", real_strategy, check_real, classify_real, quick=200, thorough=4000),
]
