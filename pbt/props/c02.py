"""
C02 - every message is uniquely and contiguously placed by task_uuid/task_level.
"""

from hypothesis import strategies as st

from ..core import Facet, Violation, require, canon, setup_path
from .. import programs as P
from .. import invariants

setup_path()

PROPERTY = "C02"
LEVEL = "exploration"
RULE = (
    "(a) sequential generated logging programs (all action/message kinds, remote sub-tasks, generators, re-entered "
    "contexts; a third facet lets user fields be named task_uuid / task_level / timestamp, which eliot must overwrite); (b) the same next to 1-3 additional destinations that raise on generated subsets of their calls "
    "(fault masks; Exception subclasses incl. one whose str() raises) while one healthy observer records; (c) structured "
    "concurrent programs (threads via preserve_context / continue_task / bare, asyncio tasks sharing the parent action) "
    "under harness-owned schedules at logging-call boundaries / await points (facet concurrent; generator shared with C05). "
    "Oracle: field presence/types, run-wide uniqueness of (task_uuid, task_level), positions of every action exactly 1..n "
    "with start at 1 and end at n, child levels extend parents, emission order == level order per action (remote children "
    "exempt from 'start before later siblings'), children nested in the parent's lifetime; eliot:destination_failure reports "
    "are ordinary members of the tree. Non-trivial: >= 2 nesting levels and (a fault that hits a start or end message, or "
    ">= 1 remote hand-off, or >= 3 tasks, or >= 2 workers interleaved inside one action). Facets shared-action(-enum): 2-3 "
    "threads log messages, child actions and serialised ids inside ONE action (each through its context()) under schedules "
    "of eliot/_action.py at source-line and bytecode granularity (generated plans + every single preemption): positions "
    "unique and contiguous. Distinct = canonical JSON of the case."
)
ASSUMPTIONS = [
    "failing field serializers are excluded (the property excludes them)",
    "open known finding F7 (explicit finish() inside the action's own context while a destination rejects the end message) "
    "is excluded by construction in the fault facet and reproduced separately",
    "timestamps are checked for type only",
]

DEST_EXC = [ValueError, RuntimeError, P.BadStrError, OSError, KeyError, ZeroDivisionError, P.AppError]


class FaultyDest(object):
    def __init__(self, mask, exc_index, every=None):
        self.mask = set(mask)
        self.exc = DEST_EXC[exc_index % len(DEST_EXC)]
        self.calls = 0
        self.runaway = False
        self.every = every
        self.hit = []  # messages on which it raised

    def __call__(self, message):
        k = self.calls
        self.calls += 1
        if message.get("message_type") == "eliot:destination_failure" and "eliot:destination_failure" in str(message.get("message")):
            # a report about a failed report (unbounded recursion ahead): stop failing, flag it
            self.runaway = True
            return
        if k in self.mask or (self.every and k % self.every == 0):
            self.hit.append(dict(message))
            raise self.exc("destination fault on call %d" % k)


def replace_kind(program, old, new, counter):
    out = []
    for node in program:
        node = dict(node)
        if node.get("op") == "action" and node["kind"] == old:
            node["kind"] = new
            counter[0] += 1
        for part in ("body", "handler", "final"):
            if node.get(part):
                node[part] = replace_kind(node[part], old, new, counter)
        out.append(node)
    return out


def check_seq(case):
    from .c03 import build_extractors

    opts = {"extractors": build_extractors(case["extractors"])} if case.get("extractors") else None
    run = P.run_program(case["program"], sink="memory", opts=opts)
    require(not run.errors, "api-raised", lambda: repr(run.errors))
    info = invariants.check_messages(run.messages)
    info["remote"] = run.stats.get("remote", 0) + run.stats.get("preserve", 0)
    ids = run.stats.get("task_ids", [])
    require(len(set(ids)) == len(ids), "task-id-reused", lambda: "serialize_task_id returned a duplicate: %r" % (ids,))
    levels = set("%s@/%s" % (m["task_uuid"], "/".join(map(str, m["task_level"]))) for m in run.messages)
    # a reserved position is the *prefix* of the remote action's messages, never a message's own level
    for tid in ids:
        require(tid not in levels, "task-id-collides", lambda: "task id %s equals an emitted message's level" % tid)
    return info


def check_faults(case):
    counter = [0]
    program = case["program"]
    if not case.get("raw"):
        program = replace_kind(program, "finish_inside", "finish", counter)
    faulty = [FaultyDest(f["mask"], f["exc"], f.get("every")) for f in case["faulty"]]
    pos = case.get("observer_pos", 0) % (len(faulty) + 1)

    def dests(observer):
        d = list(faulty)
        d.insert(pos, observer)
        return d

    run = P.run_program(program, sink="memory", destinations=dests)
    require(not run.errors, "api-raised", lambda: repr(run.errors))
    require(not any(f.runaway for f in faulty), "report-on-report", "a failure while delivering a failure report was itself reported")
    info = invariants.check_messages(run.messages)
    info["excluded_f7"] = counter[0]
    hits = [m for f in faulty for m in f.hit]
    info["fault_hits"] = len(hits)
    info["fault_on_start_or_end"] = sum(1 for m in hits if "action_status" in m)
    info["fault_on_report"] = sum(1 for m in hits if m.get("message_type") == "eliot:destination_failure")
    info["remote"] = run.stats.get("remote", 0) + run.stats.get("preserve", 0)
    return info


def classify_seq(case, info):
    labels = ["depth=%d" % min(info["max_depth"], 6), "tasks=%d" % min(info["tasks"], 5)]
    if info["remote"]:
        labels.append("remote-handoff")
    nontrivial = info["max_depth"] >= 2 and (info["remote"] >= 1 or info["tasks"] >= 3)
    return nontrivial, labels


def classify_faults(case, info):
    labels = ["depth=%d" % min(info["max_depth"], 6), "faulty=%d" % len(case["faulty"])]
    if info["fault_on_start_or_end"]:
        labels.append("fault-on-start-or-end")
    if info["fault_on_report"]:
        labels.append("fault-on-report")
    if info["fault_hits"] == 0:
        labels.append("no-fault-hit")
    if info.get("excluded_f7"):
        labels.append("excluded-by-construction:F7")
    nontrivial = info["max_depth"] >= 2 and info["fault_on_start_or_end"] >= 1
    return nontrivial, labels


def faulty_strategy():
    return st.lists(
        st.builds(
            lambda mask, exc, every: {"mask": sorted(set(mask)), "exc": exc, "every": every},
            st.lists(st.integers(0, 30), max_size=8),
            st.integers(0, len(DEST_EXC) - 1),
            st.sampled_from([None, None, None, 1, 2, 3]),
        ),
        min_size=1,
        max_size=3,
    )


def seq_strategy():
    from .c03 import extractor_specs

    return st.builds(lambda ex, p: {"extractors": ex, "program": p}, st.one_of(st.just([]), extractor_specs()), P.programs(max_nodes=14))


def collide_strategy():
    from .. import values as V

    return st.builds(
        lambda p: {"program": p},
        P.programs(
            max_nodes=12,
            max_depth=4,
            names=V.colliding_field_names(),
            kinds=["with", "finish", "finish_inside", "run", "task", "gen_close", "gen_next"],
            msg_kinds=["log_message", "action_log", "Message_log", "Message_new"],
        ),
    )


def classify_collide(case, info):
    text = canon(case["program"])
    hit = any(('"%s":' % k) in text for k in ("task_uuid", "task_level", "timestamp"))
    nt, labels = classify_seq(case, info)
    if hit:
        labels.append("user-field-named-like-eliot-key")
    return bool(hit and info["max_depth"] >= 1), labels


def faults_strategy():
    return st.builds(
        lambda f, pos, p: {"program": p, "faulty": f, "observer_pos": pos},
        faulty_strategy(),
        st.integers(0, 3),
        P.programs(max_nodes=12),
    )


def check_concurrent(case):
    """Structured concurrent programs (threads / asyncio tasks) under generated schedules: same invariants."""
    from .. import conc

    info = {"switches": 0, "max_depth": 0, "tasks": 0, "messages": 0}
    for plan in case["plans"]:
        world, messages = conc.run_case_once(case, plan)
        require(not world.errors, "context-leak", lambda: "; ".join(world.errors[:3]))
        inv = invariants.check_messages(messages, causal=True)
        info["switches"] = max(info["switches"], world.scheduler_switches)
        info["max_depth"] = max(info["max_depth"], inv["max_depth"])
        info["tasks"] = max(info["tasks"], inv["tasks"])
        info["messages"] += len(messages)
    return info


def classify_concurrent(case, info):
    labels = ["mode:" + case["mode"], "workers=%d" % len(case["workers"]), "switches=%d" % min(info["switches"], 8), "depth=%d" % min(info["max_depth"], 6)]
    return info["max_depth"] >= 2 and info["switches"] >= 2, labels


def concurrent_strategy():
    from . import c05

    return st.one_of(c05.strategy("thread"), c05.strategy("async"))


def check_shared_action(case):
    """Two or three threads log inside one and the same action (each through its context()) under schedules of
    eliot/_action.py at source-line or bytecode granularity: positions stay unique and contiguous."""
    import threading
    from .. import sched
    from ..core import HarnessError
    from eliot import Logger, log_message, start_action
    from eliot._output import Destinations

    saved = Logger._destinations
    fresh = Destinations()
    Logger._destinations = fresh
    msgs = []
    lock = threading.Lock()

    def dest(m):
        with lock:
            msgs.append(dict(m))

    fresh.add(dest)
    from eliot import _action

    saved_threading = _action.threading
    # locks the action module creates are cooperative: a worker waiting for one parks at the scheduler
    _action.threading = sched.coop_threading_module()
    try:
        shared = start_action(action_type="c02:shared")

        ids = []
        bare = set(case.get("bare") or ())

        def worker(tid, ops):
            def body():
                for k, op in enumerate(ops):
                    if op == "m":
                        log_message(message_type="c02:m", who="t%d.%d" % (tid, k))
                    elif op == "a":
                        with start_action(action_type="c02:child", who="t%d.%d" % (tid, k)):
                            pass
                    else:
                        ids.append(shared.serialize_task_id())

            def run():
                if tid in bare:
                    # a thread with no current action: each message is a task of its own, each action a new task
                    body()
                else:
                    with shared.context():
                        body()

            return run

        s = sched.Scheduler(("eliot/_action.py",), case["plan"], opcodes=bool(case.get("opcodes")))
        s.run([worker(i, ops) for i, ops in enumerate(case["threads"])])
        shared.finish()
    finally:
        Logger._destinations = saved
        _action.threading = saved_threading
    for wid, e in s.errors.items():
        if isinstance(e, HarnessError):
            raise e
        raise Violation("thread-raised", "thread %d raised %r" % (wid, e))
    levels = {}
    for i, m in enumerate(msgs):
        key = (m["task_uuid"], tuple(m["task_level"]))
        require(key not in levels, "duplicate-level", lambda: "messages %d and %d share (task_uuid, task_level) %r: %r / %r" % (levels[key], i, key, msgs[levels[key]].get("who"), m.get("who")))
        levels[key] = i
    shared_uuid = msgs[0]["task_uuid"]
    top = sorted(lvl[0] for (u, lvl) in levels if len(lvl) >= 1 and u == shared_uuid)
    used = sorted(set(top))
    # the positions the serialised ids name: fresh ones, in the shared action
    reserved = []
    for tid_ in ids:
        u, _, lvl = tid_.decode("ascii").partition("@")
        parts = [int(x) for x in lvl.strip("/").split("/")]
        require(u == shared_uuid and len(parts) == 1, "id-elsewhere", lambda: "serialize_task_id returned %r inside the shared action %s" % (tid_, shared_uuid))
        require(parts[0] not in used and parts[0] not in reserved, "id-position-not-fresh", lambda: "serialize_task_id returned %r, but position %d is also used by %s" % (tid_, parts[0], "a message" if parts[0] in used else "another id"))
        reserved.append(parts[0])
    # start .. end of the shared action: 1..n, the ids that were serialised (never continued here) filling the gaps
    require(sorted(used + reserved) == list(range(1, used[-1] + 1)), "positions-not-contiguous", lambda: "the shared action uses positions %r and handed out ids for %r" % (used, sorted(reserved)))
    # what the threads without a current action logged: one-message tasks, and tasks of one empty action
    others = {}
    for (u, lvl), i in levels.items():
        if u != shared_uuid:
            others.setdefault(u, []).append((lvl, i))
    for u, entries in others.items():
        entries.sort()
        first = msgs[entries[0][1]]
        want = [(1,)] if "message_type" in first else [(1,), (2,)]
        require([l for l, _ in entries] == want, "stray-task", lambda: "task %s logged by a thread without current action has levels %r (%r)" % (u, [l for l, _ in entries], [msgs[i].get("who") for _, i in entries]))
    inside = s.switched_inside(("_nextTaskLevel", "log", "log_message", "child", "_start", "finish", "serialize_task_id"))
    return {"switches": len(s.switches), "switch_inside": len(inside), "max_depth": 2, "tasks": 1, "messages": len(msgs)}


def classify_shared_action(case, info):
    labels = ["threads=%d" % len(case["threads"]), "switches=%d" % min(info["switches"], 6), "granularity:bytecode" if case.get("opcodes") else "granularity:line"]
    labels.append("threads-without-current-action=%d" % len(case.get("bare") or ()))
    if info["switch_inside"]:
        labels.append("preempted-inside-the-action's-code")
    return info["switch_inside"] >= 1, labels


def shared_action_strategy():
    from .. import sched

    ops = st.lists(st.sampled_from(["m", "m", "a", "s"]), min_size=1, max_size=3)
    return st.builds(
        lambda opc, plan, threads, bare: sched.with_granularity({"plan": plan, "threads": threads, "bare": sorted(b for b in bare if b < len(threads))}, opc),
        st.sampled_from([False, False, True]),
        sched.plans(max_segments=10, max_steps=20, workers=3),
        st.lists(ops, min_size=2, max_size=3),
        st.sampled_from([[], [], [0, 1, 2], [1], [0, 2]]),
    )


def shared_action_enum_runner(mod, facet, tier, seed, shard, nshards, stats):
    from ..core import enumerate_cases
    from .. import sched

    cases = []
    for threads, bare in (([["m"], ["m"]], []), ([["m", "m"], ["a"]], []), ([["s"], ["m"]], []), ([["m"], ["m"]], [0, 1]), ([["m"], ["a"]], [0, 1])):
        for plan in sched.single_preemption_plans(2, 40):
            cases.append({"plan": plan, "threads": threads, "bare": bare})
        for k in range(0, 200 if tier == "thorough" else 120):
            cases.append({"opcodes": True, "plan": [[k, 0], [10**6, 1]], "threads": threads, "bare": bare})
    stats.extra["enumerated_plans"] = len(cases)
    enumerate_cases(mod, facet, cases, shard, nshards, stats, exhaustive=True)


def _known_f7(facet, case, violation):
    # explicit finish() inside the action's own context + a destination that
    # rejects that end message: the report is logged after the end message
    if facet != "faults" or violation.kind != "end-not-last":
        return False
    return "finish_inside" in canon(case["program"]) and bool(case.get("raw"))


KNOWN = {"F7-report-after-end": _known_f7}

FACETS = [
    Facet("sequential", seq_strategy, check_seq, classify_seq, quick=1000, thorough=30000),
    Facet("faults", faults_strategy, check_faults, classify_faults, quick=800, thorough=20000),
    Facet("colliding-names", collide_strategy, check_seq, classify_collide, quick=500, thorough=10000),
    Facet("concurrent", concurrent_strategy, check_concurrent, classify_concurrent, quick=300, thorough=5000),
    Facet("shared-action", shared_action_strategy, check_shared_action, classify_shared_action, quick=150, thorough=5000),
    Facet("shared-action-enum", None, check_shared_action, classify_shared_action, quick=1, thorough=1, runner=shared_action_enum_runner),
]
