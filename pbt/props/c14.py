"""
C14 - test-time validation accepts exactly the messages matching their declared types.
"""

import contextvars
import unittest

from hypothesis import strategies as st

from ..core import Facet, Violation, require, canon, setup_path

setup_path()
from eliot import (  # noqa: E402
    ActionType,
    Field,
    MemoryLogger,
    MessageType,
    ValidationError,
    fields as fields_shorthand,
    log_message,
    register_exception_extractor,
    start_action,
    write_traceback,
)
from eliot import _output  # noqa: E402
from eliot import FileDestination  # noqa: E402
from eliot import _errors as eliot_errors  # noqa: E402
from eliot.testing import UnflushedTracebacks, capture_logging, check_for_errors, swap_logger  # noqa: E402

PROPERTY = "C14"
LEVEL = "exploration"
RULE = (
    "Generated type definitions (1-3 MessageTypes/ActionTypes per case; fields via Field.for_types over JSON-native "
    "classes, Field.for_value, Field(key, serializer), Field with an extra validator, fields(k=type)) and conforming "
    "values. Facet conforming: correct use (stand-alone and in-action messages, action start/success, failed actions with "
    "a registered extractor adding fields, tracebacks that are flushed) -> validate()/check_for_errors() must not raise. "
    "Facet deviation: after 0-3 conforming messages + validate() + reset() (or none), exactly one deviation on one message "
    "- drop a declared field; add an undeclared field whose name is random, or one of exception/reason/traceback/"
    "action_type/message_type/action_status, or a name declared by ANOTHER type or another phase of the same ActionType; "
    "a value of another class (also one that compares equal to the conforming value logged just before: 1 for 1.0, 1.0 for 1, 1 for True); a value the extra validator rejects; a wrong for_value constant; a value that is not JSON-"
    "encodable (typed or untyped message; an object of a foreign class, or a str/int the field accepts but eliot's own "
    "FileDestination cannot encode: lone surrogate, int >= 2**64) - must make validate() raise ValidationError or TypeError; extras on failed ends "
    "and tracebacks (extractor fields) must be accepted; an unflushed traceback must make check_for_errors raise "
    "UnflushedTracebacks before any validation error. Facet capture: generated TestCase methods under capture_logging "
    "(log valid/invalid messages, leave or flush tracebacks, swap the logger themselves, then pass/fail/error/skip): after "
    "run() the default logger IS the previous one and the unittest outcome category is the expected one. Non-trivial: a "
    "deviation on an action message, or an extra field with a reserved-looking / foreign-declared name, or a failing/"
    "erroring/skipping test. Distinct = canonical JSON of the case."
)
ASSUMPTIONS = [
    "bytes is in eliot's _JSON_TYPES but not JSON-encodable by the encoder; bytes fields are not treated as correct use",
    "bool is accepted by an int field (isinstance) and is not used as a wrong-class deviation for it",
    "validate() is called once per logger state (it serialises in place by design)",
]

CLASSES = {"str": str, "int": int, "float": float, "bool": bool, "list": list, "dict": dict, "none": None}
SAMPLE = {"str": "s", "int": 1, "float": 1.0, "bool": True, "list": [1], "dict": {"k": 1}, "none": None}
KEYS = ["a", "b", "c", "size", "path", "user", "exception", "reason"]


class _Str(str):
    pass


class _List(list):
    pass


import collections as _collections  # noqa: E402

# instances of subclasses of the declared classes: what isinstance() - the documented rule - accepts
SUBCLASS_SAMPLE = {"int": True, "str": _Str("s"), "list": _List([1]), "dict": _collections.OrderedDict([("k", 1)])}


class Unencodable(object):
    pass


def even(v):
    if not isinstance(v, int) or isinstance(v, bool) or v % 2:
        raise ValidationError(v, "must be an even int")


def make_field(spec):
    key, kind, param = spec
    if kind == "types":
        return Field.for_types(key, [CLASSES[c] for c in param], "")
    if kind == "shorthand":
        return fields_shorthand(**{key: CLASSES[param[0]]})[0]
    if kind == "value":
        return Field.for_value(key, param, "")
    if kind == "ser":
        return Field(key, (str if param else (lambda v: v)), "")
    if kind == "validator":
        return Field(key, lambda v: v, "", even)
    raise ValueError(kind)


def good_value(spec, pick=0, variant=0):
    key, kind, param = spec
    if kind in ("types", "shorthand"):
        c = param[pick % len(param)]
        if variant and c in SUBCLASS_SAMPLE:
            return SUBCLASS_SAMPLE[c]
        return SAMPLE[c]
    if kind == "value":
        return param
    if kind == "ser":
        return [1, "x"] if not param else 7
    return 4


def bad_value(spec):
    """A value the field must reject (or None if there is none)."""
    key, kind, param = spec
    if kind in ("types", "shorthand"):
        allowed = set(param)
        for c in ("list", "str", "dict", "float", "none", "int"):
            if c in allowed:
                continue
            if c == "int" and "bool" in allowed:
                continue
            if c == "float" and False:
                continue
            if c == "bool" and "int" in allowed:
                continue
            return SAMPLE[c]
        return None
    if kind == "value":
        return "not-the-constant"
    if kind == "validator":
        return 3
    if kind == "ser":
        return Unencodable() if not param else None
    return None


def equal_but_wrong(spec):
    """A value that compares (and hashes) equal to the field's conforming sample but is of a class it rejects."""
    key, kind, param = spec
    if kind not in ("types", "shorthand"):
        return None
    allowed = set(param)
    if allowed == {"float"}:
        return 1  # the sample is 1.0
    if allowed == {"int"}:
        return 1.0  # the sample is 1
    if allowed == {"bool"}:
        return 1  # the sample is True
    return None


def unencodable_scalar(spec):
    """A value of a class the field accepts that eliot's own JSON output cannot encode (or None)."""
    key, kind, param = spec
    if kind in ("types", "shorthand"):
        candidates = []
        if "str" in param:
            candidates.append("name-\udcff.txt")  # what os.fsdecode gives for undecodable bytes
        if "int" in param:
            candidates.append(2**70)
    elif kind == "ser" and not param:
        candidates = ["\udcff", 2**70]
    else:
        return None
    from io import BytesIO

    for v in candidates:
        try:
            FileDestination(file=BytesIO())({"task_uuid": "u", "task_level": [1], "timestamp": 1.0, key: v})
        except Exception:
            return v
    return None


class World(object):
    def __init__(self, case):
        self.types = []
        self.variant = case.get("variant", 0)
        for t in case["types"]:
            if t["kind"] == "message":
                obj = MessageType("c14:m%d" % len(self.types), [make_field(f) for f in t["fields"]], "")
            else:
                obj = ActionType("c14:a%d" % len(self.types), [make_field(f) for f in t["start"]], [make_field(f) for f in t["success"]], "")
            self.types.append((t, obj))

    def declared_elsewhere(self, index, phase):
        names = []
        for i, (t, obj) in enumerate(self.types):
            for ph in ("fields", "start", "success"):
                if i == index and ph == phase:
                    continue
                names.extend(f[0] for f in t.get(ph, []))
        return sorted(set(names))


class AppFailure(Exception):
    pass


def emit(world, index, deviation=None, fail=False, tb=False):
    """
    Use type `index` correctly, except for `deviation` = [phase, kind, arg].
    """
    t, obj = world.types[index]

    def kwargs_for(phase):
        specs = t[phase]
        kw = dict((f[0], good_value(f, i, world.variant)) for i, f in enumerate(specs))
        if deviation is not None and deviation[0] == phase:
            kind, arg = deviation[1], deviation[2]
            if kind == "drop":
                kw.pop(specs[arg % len(specs)][0])
            elif kind == "extra":
                kw[arg] = 1
            elif kind == "bad":
                spec = specs[arg % len(specs)]
                kw[spec[0]] = bad_value(spec)
            elif kind == "bad-scalar":
                spec = specs[arg % len(specs)]
                kw[spec[0]] = unencodable_scalar(spec)
            elif kind == "bad-equal":
                spec = specs[arg % len(specs)]
                kw[spec[0]] = equal_but_wrong(spec)
        return kw

    if t["kind"] == "message":
        obj.log(**kwargs_for("fields"))
        return
    try:
        with obj(**kwargs_for("start")) as action:
            action.add_success_fields(**kwargs_for("success"))
            if tb:
                try:
                    raise AppFailure("logged")
                except AppFailure:
                    write_traceback()
            if fail:
                raise AppFailure("fails")
    except AppFailure:
        pass


def applicable(world, index, deviation):
    """Can this deviation be applied to this type (and is it a real deviation)?"""
    t, obj = world.types[index]
    phase, kind, arg = deviation
    if phase not in t:
        return False
    specs = t[phase]
    if kind in ("drop", "bad"):
        if not specs:
            return False
        if kind == "bad" and bad_value(specs[arg % len(specs)]) is None:
            return False
        return True
    if kind == "bad-scalar":
        return bool(specs) and unencodable_scalar(specs[arg % len(specs)]) is not None
    if kind == "bad-equal":
        return bool(specs) and equal_but_wrong(specs[arg % len(specs)]) is not None
    if kind == "extra":
        if arg in [f[0] for f in specs]:
            return False
        if arg in ("task_uuid", "task_level", "timestamp"):
            return False
        if t["kind"] == "message" and arg == "message_type":
            return False
        if t["kind"] == "action" and arg in ("action_type", "action_status", "logger"):
            return False
        return True
    return False


def with_logger(fn):
    saved_registry = dict(eliot_errors._error_extraction.registry)
    logger = MemoryLogger()
    prev = swap_logger(logger)
    try:
        register_exception_extractor(AppFailure, lambda e: {"code": 17, "detail": [1, 2]})
        contextvars.copy_context().run(fn, logger)
    finally:
        swap_logger(prev)
        eliot_errors._error_extraction.registry.clear()
        eliot_errors._error_extraction.registry.update(saved_registry)
    return logger


def check_conforming(case):
    world = World(case)
    info = {"messages": 0, "failed": 0, "tracebacks": 0}

    def run(logger):
        for step in case["steps"]:
            idx = step[0] % len(world.types)
            in_action = step[1]
            fail = bool(step[2])
            tb = bool(step[3])
            if in_action:
                with start_action(action_type="c14:plain", x=1):
                    emit(world, idx, None, fail, tb)
            else:
                emit(world, idx, None, fail, tb)
            if world.types[idx][0]["kind"] == "action":
                info["failed"] += int(fail)
                info["tracebacks"] += int(tb)

    logger = with_logger(run)
    info["messages"] = len(logger.messages)
    if info["tracebacks"]:
        try:
            check_for_errors(logger)
            raise Violation("unflushed-accepted", "check_for_errors passed with %d unflushed tracebacks" % info["tracebacks"])
        except UnflushedTracebacks:
            pass
        except Violation:
            raise
        except Exception as e:
            raise Violation("wrong-error", "check_for_errors raised %r instead of UnflushedTracebacks" % (e,))
        flushed = logger.flush_tracebacks(AppFailure)
        require(len(flushed) == info["tracebacks"], "flush-count", "flushed %d of %d tracebacks" % (len(flushed), info["tracebacks"]))
    try:
        check_for_errors(logger)
    except Exception as e:
        raise Violation("conforming-rejected", "correct use was rejected: %r" % (e,))
    return info


def classify_conforming(case, info):
    labels = ["types=%d" % len(case["types"])]
    if info["failed"]:
        labels.append("failed-action-with-extractor-fields")
    if info["tracebacks"]:
        labels.append("traceback")
    kinds = sorted(set(f[1] for t in case["types"] for ph in ("fields", "start", "success") for f in t.get(ph, [])))
    labels.extend("field:" + k for k in kinds)
    if case.get("variant"):
        labels.append("values-are-instances-of-subclasses")
    names = set(f[0] for t in case["types"] for ph in ("fields", "start", "success") for f in t.get(ph, []))
    if {"exception", "reason"} & names:
        labels.append("declared-field-named-exception-or-reason")
    return info["messages"] >= 3 and bool(info["failed"] or info["tracebacks"] or len(kinds) >= 2), labels


def check_deviation(case):
    world = World(case)
    dev = list(case["deviation"])
    idx = dev[0] % len(world.types)
    deviation = dev[1:]
    # make the deviation applicable by construction rather than discarding the case
    t0 = world.types[idx][0]
    phases = [ph for ph in ("fields", "start", "success") if ph in t0]
    if deviation[0] not in phases:
        deviation[0] = phases[len(str(dev)) % len(phases)]
    if deviation[1] == "bad-scalar":
        # aim at a field that has such a value, wherever it is
        found = [(ph, i) for ph in phases for i, f in enumerate(t0[ph]) if unencodable_scalar(f) is not None]
        if found:
            deviation[0], deviation[2] = found[deviation[2] % len(found)]
        else:
            deviation = [None, "untyped-scalar", None]
    if deviation[1] == "bad-equal":
        # aim at a single-class numeric/bool field, wherever it is (the conforming equal value is logged first: warm-up)
        found = [(ph, i) for ph in phases for i, f in enumerate(t0[ph]) if equal_but_wrong(f) is not None]
        if found:
            deviation[0], deviation[2] = found[deviation[2] % len(found)]
        else:
            return {"skipped": True}
    if deviation[1] in ("drop", "bad") and not applicable(world, idx, deviation):
        for ph in phases:
            if applicable(world, idx, [ph, deviation[1], deviation[2]]):
                deviation[0] = ph
                break
        else:
            deviation = [deviation[0], "extra", "zz"]
    if deviation[1] == "extra" and not applicable(world, idx, deviation):
        deviation = [deviation[0], "extra", "zz"]
    if deviation[1] == "extra-foreign":
        names = world.declared_elsewhere(idx, deviation[0])
        names = [n for n in names if applicable(world, idx, [deviation[0], "extra", n])]
        if not names:
            return {"skipped": True}
        deviation = [deviation[0], "extra", names[deviation[2] % len(names)]]
    elif deviation[1] == "untyped-unencodable":
        deviation = [None, "untyped", None]
    elif deviation[1] == "untyped-scalar":
        if unencodable_scalar(["value", "ser", 0]) is None:
            return {"skipped": True}
    elif not applicable(world, idx, deviation):
        return {"skipped": True}

    def run(logger):
        warm = case.get("warmup", 0)
        if warm:
            for k in range(warm):
                emit(world, (idx + k) % len(world.types))
            try:
                logger.validate()
            except Exception as e:
                raise Violation("conforming-rejected", "warm-up messages rejected: %r" % (e,))
            logger.reset()
        for k in range(case.get("before", 0)):
            emit(world, (idx + k) % len(world.types))
        if deviation[1] == "untyped":
            log_message(message_type="c14:untyped", value=Unencodable())
        elif deviation[1] == "untyped-scalar":
            log_message(message_type="c14:untyped", value=unencodable_scalar(["value", "ser", 0]))
        else:
            emit(world, idx, deviation)
        for k in range(case.get("after", 0)):
            emit(world, (idx + 1 + k) % len(world.types))

    logger = with_logger(run)
    try:
        logger.validate()
    except (ValidationError, TypeError):
        pass
    except Exception as e:
        raise Violation("wrong-error", "validate() raised %r for deviation %r" % (e, deviation))
    else:
        raise Violation(
            "deviation-accepted",
            "validate() accepted a message with deviation %r on type %d of %s (warmup=%d)" % (deviation, idx, canon(case["types"])[:600], case.get("warmup", 0)),
        )
    t = world.types[idx][0]
    return {"skipped": False, "on_action": t["kind"] == "action", "kind": deviation[1], "name": deviation[2] if deviation[1] == "extra" else None, "warmup": case.get("warmup", 0)}


def classify_deviation(case, info):
    if info.get("skipped"):
        return False, ["not-applicable"]
    labels = ["deviation:" + info["kind"], "warmup=%d" % info["warmup"]]
    if info["on_action"]:
        labels.append("on-action-message")
    special = info["name"] in ("exception", "reason", "traceback", "action_type", "message_type", "action_status") or case["deviation"][2] == "extra-foreign"
    if special:
        labels.append("reserved-looking-or-foreign-name")
    return bool(info["on_action"] or special), labels


# ---------------------------------------------------------- capture_logging


OTHER = MemoryLogger()
BAD_TYPE = MessageType("c14:typed", [Field.for_types("n", [int], "")], "")


def check_capture(case):
    steps = case["steps"]
    final = case["final"]
    marker = MemoryLogger()
    before = swap_logger(marker)
    seen = {}
    try:
        assertion = case.get("assertion")

        def own_assertion(test_case, logger):
            # the test's own assertion about its logging, given to capture_logging
            seen["assertion_ran"] = True
            if assertion == "fail":
                test_case.fail("generated logging assertion failure")

        class T(unittest.TestCase):
            @capture_logging(own_assertion if assertion else None)
            def test(self, logger):
                seen["logger"] = logger
                seen["default_inside"] = _output._DEFAULT_LOGGER
                for s in steps:
                    if s == "valid":
                        BAD_TYPE.log(n=1)
                    elif s == "invalid":
                        BAD_TYPE.log(n="not an int")
                    elif s == "traceback":
                        try:
                            raise AppFailure("x")
                        except AppFailure:
                            write_traceback()
                    elif s == "flush":
                        logger.flush_tracebacks(AppFailure)
                    elif s == "swap":
                        swap_logger(OTHER)
                    elif s == "validate":
                        # the test validates what was logged so far itself (documented use)
                        logger.validate()
                if final == "fail":
                    self.fail("generated failure")
                if final == "error":
                    raise RuntimeError("generated error")
                if final == "skip":
                    raise unittest.SkipTest("generated skip")

        result = unittest.TestResult()
        T("test").run(result)
        after = _output._DEFAULT_LOGGER
    finally:
        _output._DEFAULT_LOGGER = before
    require(after is marker, "logger-not-restored", lambda: "after a test that ended with %r (steps %r) the default logger is %r, not the previous one" % (final, steps, after))
    require(seen.get("default_inside") is seen.get("logger"), "not-captured", "inside the test the default logger is not the MemoryLogger passed to it")
    swapped = "swap" in steps
    # bookkeeping the model of the steps
    unflushed = 0
    invalid = 0
    dirty = False
    body_error = False
    validated_unflushed = False
    ambiguous = False
    for s in steps:
        if body_error:
            break
        if s == "validate":
            if invalid:  # (acts on the captured logger object itself, whatever the default logger is by now)
                body_error = True  # validate() raises inside the test body
            if unflushed:
                # validate() serialises the stored tracebacks in place; whether a later flush_tracebacks(E) still
                # recognises them is not specified (on this tree it does not)
                validated_unflushed = True
            continue
        if s == "swap":
            dirty = True  # from here on the test's own logging goes to the logger it swapped in
        elif s == "flush":
            if validated_unflushed and unflushed:
                ambiguous = True
            unflushed = 0  # flushing acts on the captured logger object itself
        elif dirty:
            continue
        elif s == "traceback":
            unflushed += 1
        elif s == "invalid":
            invalid += 1
    cleanup_error = unflushed > 0 or invalid > 0
    cats = {"failures": len(result.failures), "errors": len(result.errors), "skipped": len(result.skipped)}
    if ambiguous and not body_error:
        return {"final": final, "cleanup_error": False, "swapped": swapped, "ambiguous": True}
    if body_error:
        require(cats["errors"] >= 1, "outcome", lambda: "a test whose own validate() call must raise reported %r" % cats)
        return {"final": "error", "cleanup_error": True, "swapped": swapped}
    if final == "pass" and assertion == "fail":
        # the failing assertion and the deviation are two separate reports
        require(cats["failures"] >= 1, "outcome", lambda: "the failing logging assertion was not reported: %r" % cats)
        if cleanup_error:
            require(cats["errors"] >= 1, "outcome", lambda: "test with a failing logging assertion AND %d unflushed tracebacks / %d invalid messages reported only %r" % (unflushed, invalid, cats))
        return {"final": final, "cleanup_error": cleanup_error, "swapped": swapped, "assertion_failed": True}
    if final == "fail":
        want_failures = 2 if assertion == "fail" else 1  # the body's failure and the logging assertion's
        require(cats["failures"] == want_failures, "outcome", lambda: "failing test reported %r" % cats)
    elif final == "error":
        require(cats["errors"] >= 1, "outcome", lambda: "erroring test reported %r" % cats)
    elif final == "skip":
        require(cats["skipped"] == 1 and cats["failures"] == 0, "outcome", lambda: "skipped test reported %r" % cats)
    else:
        if cleanup_error:
            require(cats["errors"] >= 1, "outcome", lambda: "test with %d unflushed tracebacks / %d invalid messages reported %r" % (unflushed, invalid, cats))
        else:
            require(cats == {"failures": 0, "errors": 0, "skipped": 0}, "outcome", lambda: "passing test reported %r (%r)" % (cats, [str(e[1])[-300:] for e in result.errors]))
    return {"final": final, "cleanup_error": cleanup_error, "swapped": swapped}


def classify_capture(case, info):
    labels = ["final:" + info["final"]]
    if info["cleanup_error"]:
        labels.append("invalid-or-unflushed")
    if info["swapped"]:
        labels.append("test-swaps-logger")
    if info.get("assertion_failed"):
        labels.append("own-logging-assertion-fails")
    if "validate" in case["steps"]:
        labels.append("test-calls-validate-itself")
    return info["final"] != "pass" or info["cleanup_error"], labels


# ---------------------------------------------------------------- strategy


def field_specs(keys):
    def one(key):
        return st.one_of(
            st.lists(st.sampled_from(sorted(CLASSES)), min_size=1, max_size=3, unique=True).map(lambda cs: [key, "types", cs]),
            st.sampled_from(["str", "int", "float", "list", "dict", "bool"]).map(lambda c: [key, "shorthand", [c]]),
            st.sampled_from([1, "const", None, [1]]).map(lambda v: [key, "value", v]),
            st.booleans().map(lambda b: [key, "ser", b]),
            st.just([key, "validator", None]),
        )

    return st.lists(st.sampled_from(keys), max_size=3, unique=True).flatmap(lambda ks: st.tuples(*[one(k) for k in ks]).map(list))


def type_specs():
    msg = field_specs(KEYS).map(lambda f: {"kind": "message", "fields": f})
    act = st.tuples(field_specs(KEYS), field_specs(KEYS)).map(lambda p: {"kind": "action", "start": p[0], "success": p[1]})
    return st.lists(st.one_of(msg, act, act), min_size=1, max_size=3)


def conforming_strategy():
    step = st.tuples(st.integers(0, 2), st.booleans(), st.sampled_from([0, 0, 1]), st.sampled_from([0, 0, 0, 1])).map(list)
    return st.builds(lambda variant, types, steps: {"variant": variant, "types": types, "steps": steps}, st.sampled_from([0, 0, 1]), type_specs(), st.lists(step, min_size=1, max_size=5))


def deviation_strategy():
    extra_names = st.one_of(
        st.sampled_from(["exception", "reason", "traceback", "action_type", "message_type", "action_status", "extra", "zz"]),
        st.sampled_from(KEYS),
    )
    dev = st.one_of(
        st.tuples(st.integers(0, 2), st.sampled_from(["fields", "start", "success"]), st.just("drop"), st.integers(0, 2)),
        st.tuples(st.integers(0, 2), st.sampled_from(["fields", "start", "success"]), st.just("bad"), st.integers(0, 2)),
        st.tuples(st.integers(0, 2), st.sampled_from(["fields", "start", "success"]), st.just("extra"), extra_names),
        st.tuples(st.integers(0, 2), st.sampled_from(["fields", "start", "success"]), st.just("extra-foreign"), st.integers(0, 5)),
        st.tuples(st.integers(0, 2), st.just("fields"), st.just("untyped-unencodable"), st.just(0)),
        st.tuples(st.integers(0, 2), st.sampled_from(["fields", "start", "success"]), st.just("bad-scalar"), st.integers(0, 5)),
        st.tuples(st.integers(0, 2), st.sampled_from(["fields", "start", "success"]), st.just("bad-equal"), st.integers(0, 5)),
        st.tuples(st.integers(0, 2), st.sampled_from(["fields", "start", "success"]), st.just("bad-equal"), st.integers(0, 5)),
    ).map(list)
    return st.builds(
        lambda variant, warmup, before, after, dev, types: {"variant": variant, "warmup": warmup, "before": before, "after": after, "deviation": dev, "types": types},
        st.sampled_from([0, 0, 1]),
        st.sampled_from([0, 0, 1, 3]),
        st.integers(0, 2),
        st.integers(0, 2),
        dev,
        type_specs(),
    )


def capture_strategy():
    return st.builds(
        lambda assertion, steps, final: {"assertion": assertion, "steps": steps, "final": final},
        st.sampled_from([None, None, "pass", "fail"]),
        st.lists(st.sampled_from(["valid", "invalid", "traceback", "flush", "swap", "valid", "validate"]), max_size=5),
        st.sampled_from(["pass", "pass", "fail", "error", "skip"]),
    )


FACETS = [
    Facet("conforming", conforming_strategy, check_conforming, classify_conforming, quick=700, thorough=80000),
    Facet("deviation", deviation_strategy, check_deviation, classify_deviation, quick=1200, thorough=160000),
    Facet("capture", capture_strategy, check_capture, classify_capture, quick=300, thorough=20000),
]
