"""
C20 - bundled readers render every message completely and survive foreign input.
"""

import ast
import datetime
import io
import json
import os
import sys

from hypothesis import strategies as st

from ..core import Facet, Violation, require, canon, setup_path
from .. import values as V

setup_path()
import eliot.prettyprint as pp  # noqa: E402
import eliot.filter as ef  # noqa: E402
from eliot._output import _dumps_bytes  # noqa: E402
from eliot.json import json_default  # noqa: E402

PROPERTY = "C20"
LEVEL = "exploration"
RULE = (
    "Messages: synthetic dicts with the three required fields (timestamps in [0, 4e9] incl. whole seconds and "
    "microsecond corners, levels, uuid-like ids), optional action_type/message_type/action_status, and 0-5 further fields "
    "with arbitrary names (no whitespace/control/'=') and JSON values incl. multi-line strings, tabs, backslashes, "
    "U+2028/U+0085, nesting; plus the lines real eliot programs emit. Facet format: compact_format / pretty_format "
    "parsed back by an independent reader (header = uuid, /-joined level, UTC timestamp within 1 microsecond; then every "
    "remaining field by name, type/status first, rest sorted; compact values via json raw_decode must equal the "
    "message's, pretty blocks literal_eval back to the value when they contain no escaped newline/tab, else every text "
    "line must occur). Facet cli: eliot-prettyprint's _main (module stdin/stdout replaced) over streams mixing valid "
    "lines, arbitrary bytes, invalid UTF-8, non-JSON text, JSON scalars/arrays/null and objects lacking 1-3 required "
    "fields, with and without -c/-l: never raises, and emits exactly one record per line as decided by an independent "
    "classifier. Facet cli-fuzz: the same CLI oracle driven by coverage-guided fuzzing of raw byte streams (atheris/"
    "libFuzzer, dictionary of the field names, half of the shards from a small seed corpus and half from nothing; inputs "
    "with ill-typed required fields are discarded and counted). Facet filter: eliot.filter.main over text-mode and EliotFilter over bytes input with expressions from a "
    "table (identity, field access, .get, SKIP conditionals, falsy results, datetime arithmetic): output line i must "
    "json-equal the expression's value on input i, SKIP drops exactly the selected lines. Non-trivial: a message with a "
    "nested or multi-line value; a stream mixing >= 3 line classes. Distinct = canonical JSON of the case."
)
ASSUMPTIONS = [
    "objects that have the required fields with wrong types are not in the property's list and are not generated",
    "the local-timezone option is only checked for not crashing and for record count",
]

REQUIRED = ("task_uuid", "task_level", "timestamp")
FIRST = ("action_type", "message_type", "action_status")


def names():
    alphabet = st.characters(blacklist_categories=("Cs", "Cc", "Zs", "Zl", "Zp"), blacklist_characters="=\x85\xa0")
    return st.one_of(st.sampled_from(["a", "key", "x_y", "résumé", "n", "0", "-", "level", "time", "message", "self", "format", "template", "uuid", "header"]), st.text(alphabet=alphabet, min_size=1, max_size=6)).filter(
        lambda s: s not in REQUIRED and s not in FIRST and s != V.TAG and not any(c.isspace() for c in s)
    )


def tricky_text():
    return st.one_of(
        st.sampled_from(["line1\nline2", "tab\there", "back\\slash", "a\\nb", "x y", "p\u0085q", "", " lead", "'q'", '"dq"', "\\", "é\n\té"]),
        V.texts(),
    )


def field_values():
    leaves = st.one_of(
        st.none(),
        st.booleans(),
        st.integers(-(2**53), 2**53),
        V.finite_floats(),
        tricky_text(),
        # valid for Python's json (a foreign producer may write them), beyond what eliot's own encoder emits
        st.sampled_from([2**64, 2**70 + 1, -(2**65), float("nan"), float("inf"), float("-inf")]),
    )
    return st.recursive(leaves, lambda ch: st.one_of(st.lists(ch, max_size=3), st.dictionaries(V.keys(), ch, max_size=3)), max_leaves=6)


def timestamps():
    return st.one_of(
        st.floats(min_value=0, max_value=4e9, allow_nan=False),
        st.integers(0, 4 * 10**9).map(float),
        st.sampled_from([0.0, 1.0, 1425356800.0, 1425356800.000001, 1425356800.999999, 1425356800.5, 0.000001, 3999999999.999999]),
        # the last representable instants before a full second (rounding to the microsecond carries into the seconds)
        st.tuples(st.sampled_from([0, 59, 3599, 86399, 1443193754, 1425356799, 951782399, 4102444799]), st.sampled_from([0.9999994, 0.9999995, 0.9999996, 0.9999997, 0.9999998, 0.9999999])).map(lambda p: p[0] + p[1]),
    )


def messages():
    def build(uuid, level, ts, kind, atype, status, fields):
        m = {"task_uuid": uuid, "task_level": level, "timestamp": ts}
        if kind == 0:
            m["message_type"] = atype
        elif kind == 1:
            m["action_type"] = atype
            m["action_status"] = status
        m.update(fields)
        return m

    return st.builds(
        build,
        st.one_of(st.uuids().map(str), st.sampled_from(["u1", "8c668cde-235b-4872-af4e-caea524bd1c0"])),
        st.lists(st.integers(1, 30), min_size=1, max_size=4),
        timestamps(),
        st.integers(0, 2),
        # log_message(None, ...) / start_action(action_type=None) emit a JSON null here; other falsy values come from foreign producers
        st.sampled_from(["app:a", "", "eliot:traceback", "x y", "app:a", None, None, 0, False, []]),
        st.sampled_from(["started", "succeeded", "failed", "started", "succeeded", "failed", None, ""]),
        st.one_of(
            st.dictionaries(names(), field_values(), max_size=5),
            st.dictionaries(names(), st.one_of(tricky_text(), field_values()), max_size=4),
        ),
    )


def expected_order(m):
    keys = [k for k in FIRST if k in m]
    keys += sorted(k for k in m if k not in REQUIRED and k not in FIRST)
    return keys


def check_timestamp(text, ts, where):
    require(text.endswith("Z"), "timestamp", "%s timestamp %r lacks Z" % (where, text))
    try:
        dt = datetime.datetime.fromisoformat(text[:-1])
    except ValueError:
        raise Violation("timestamp", "%s timestamp %r does not parse" % (where, text))
    got = (dt - datetime.datetime(1970, 1, 1)).total_seconds()
    delta = abs(got - ts)
    require(delta <= 1.5e-6 + abs(ts) * 1e-15, "timestamp", lambda: "%s timestamp %r is %.9f, message has %.9f" % (where, text, got, ts))


def check_compact(m):
    try:
        out = pp.compact_format(m)
    except Exception as e:
        raise Violation("compact-raised", "%r for %s" % (e, canon(m)[:400]))
    require("\n" not in out and "\r" not in out, "compact-not-one-line", lambda: repr(out)[:300])
    head = m["task_uuid"] + "/" + "/".join(map(str, m["task_level"])) + " "
    require(out.startswith(head), "compact-header", lambda: "expected to start with %r: %r" % (head, out[:120]))
    rest = out[len(head):]
    ts_text, _, rest = rest.partition(" ")
    check_timestamp(ts_text, m["timestamp"], "compact")
    dec = json.JSONDecoder()
    pairs = []
    pos = 0
    while pos < len(rest):
        eq = rest.find("=", pos)
        require(eq > pos, "compact-parse", lambda: "cannot find key= at %d in %r" % (pos, rest[:300]))
        key = rest[pos:eq]
        try:
            value, end = dec.raw_decode(rest, eq + 1)
        except ValueError as e:
            raise Violation("compact-parse", "value of %r is not JSON (%s): %r" % (key, e, rest[eq + 1 : eq + 80]))
        pairs.append((key, value))
        require(end == len(rest) or rest[end] == " ", "compact-parse", lambda: "junk after value of %r: %r" % (key, rest[end : end + 40]))
        pos = end + 1
    want = [(k, m[k]) for k in expected_order(m)]
    require(
        [k for k, _ in pairs] == [k for k, _ in want],
        "compact-fields",
        lambda: "fields shown %r, expected %r" % ([k for k, _ in pairs], [k for k, _ in want]),
    )
    for (k, got), (_, val) in zip(pairs, want):
        require(canon(got) == canon(val), "compact-value", lambda: "field %r rendered as %s, message has %s" % (k, canon(got)[:200], canon(val)[:200]))


def check_pretty(m):
    try:
        out = pp.pretty_format(m)
    except Exception as e:
        raise Violation("pretty-raised", "%r for %s" % (e, canon(m)[:400]))
    lines = out.split("\n")
    level = "/" + "/".join(map(str, m["task_level"]))
    require(lines[0] == "%s -> %s" % (m["task_uuid"], level), "pretty-header", lambda: repr(lines[0]))
    check_timestamp(lines[1], m["timestamp"], "pretty")
    keys = expected_order(m)
    body = lines[2:]
    # locate the block of each key, in order
    pos = 0
    starts = []
    for k in keys:
        prefix = "  %s: " % k
        found = None
        for i in range(pos, len(body)):
            if body[i].startswith(prefix):
                found = i
                break
        require(found is not None, "pretty-field-missing", lambda: "no block for field %r (in order) in:\n%s" % (k, out[:600]))
        starts.append(found)
        pos = found + 1
    require(not keys or starts[0] == 0, "pretty-junk", lambda: "unexpected text before the first field: %r" % body[: starts[0] if keys else 3])
    for idx, k in enumerate(keys):
        end = starts[idx + 1] if idx + 1 < len(keys) else len(body)
        block = body[starts[idx] : end]
        while block and block[-1] == "":
            block.pop()
        prefix = "  %s: " % k
        indent = " " * (2 + len(k)) + "| "
        text_lines = [block[0][len(prefix) :]]
        ok_indent = True
        for l in block[1:]:
            if l.startswith(indent):
                text_lines.append(l[len(indent) :])
            else:
                ok_indent = False
                text_lines.append(l)
        value = m[k]
        rendered = "\n".join(text_lines)
        import pprint

        plain = pprint.pformat(value, width=40)
        if "nan" in plain or "inf" in plain:
            pass  # non-finite floats have no Python literal: only presence and order of the field are checked
        elif "\\n" not in plain and "\\t" not in plain:
            require(ok_indent, "pretty-indent", lambda: "block of %r not indented with %r: %r" % (k, indent, block))
            try:
                back = ast.literal_eval(rendered)
            except Exception as e:
                raise Violation("pretty-value", "block of %r does not read back (%s): %r" % (k, e, rendered[:200]))
            require(_same_value(back, value), "pretty-value", lambda: "field %r shown as %r, message has %r" % (k, back, value))
        elif isinstance(value, str):
            # pprint wraps long strings at whitespace and the formatter turns
            # escaped newlines/tabs back into real ones: every plain word of
            # the text must still be there
            for word in value.split():
                if any(c in word for c in "'\"\\") or not word.isprintable():
                    continue
                require(word in out, "pretty-text-word", lambda: "word %r of field %r does not occur in the output:\n%s" % (word, k, out[:500]))


def _same_value(a, b):
    """Equal as JSON values: 1, 1.0 and true are three different values."""
    if type(a) is not type(b):
        return False
    if isinstance(a, list):
        return len(a) == len(b) and all(_same_value(x, y) for x, y in zip(a, b))
    if isinstance(a, dict):
        return set(a) == set(b) and all(_same_value(a[k], b[k]) for k in a)
    if isinstance(a, float):
        return a == b and str(a) == str(b)
    return a == b


def _twin_message(m, k):
    """The same field names with values that compare equal in Python but are different JSON values."""
    import math

    def flip(v):
        if isinstance(v, bool):
            return int(v)
        if isinstance(v, int) and abs(v) < 2**52:
            return float(v)
        if isinstance(v, float) and math.isfinite(v) and v == int(v) and abs(v) < 2**52:
            return -v if v == 0.0 else int(v)
        return v

    out = dict(m)
    changed = False
    for key in sorted(m):
        if key in REQUIRED:
            continue
        t = flip(m[key])
        if repr(t) != repr(m[key]):
            out[key] = t
            changed = True
    if not changed:
        # at least change one scalar the formatters have just seen
        out["twin_%d" % k] = True if k % 2 else 1.0
    return out


def check_format(case):
    m = case["message"]
    check_compact(m)
    check_pretty(m)
    for k in range(case.get("history", 0)):
        # a history: later messages re-use the field names with equal-but-different values
        if k == 0:
            m2 = dict(m, **{"twin_0": 1, "twin_1": 1, "twin_2": 0})
        else:
            m2 = _twin_message(m2, k)
        check_compact(m2)
        check_pretty(m2)
    feats = V.features(dict((k, v) for k, v in m.items() if k not in REQUIRED))
    multiline = any(isinstance(v, str) and ("\n" in v or "\t" in v) for v in m.values())
    return {"nested": feats["depth"] >= 2, "multiline": multiline, "fields": len(m) - 3}


def classify_format(case, info):
    labels = ["fields=%d" % min(info["fields"], 6)]
    if case.get("history"):
        labels.append("history-with-equal-but-different-values")
    if info["nested"]:
        labels.append("nested-value")
    if info["multiline"]:
        labels.append("multi-line-or-tab")
    return bool(info["nested"] or info["multiline"]), labels


def format_strategy():
    return st.builds(lambda h, m: {"history": h, "message": m}, st.sampled_from([0, 0, 2, 3]), messages())


# ------------------------------------------------------------------- real


def check_real(case):
    from .. import programs as P

    run = P.run_program(case["program"], sink="file-b")
    for m in run.messages:
        check_compact(m)
        check_pretty(m)
    # and the CLI reproduces formatter output line by line
    out = run_cli(run.raw, [])
    want = "".join(pp.pretty_format(m) + "\n" for m in run.messages)
    require(out == want, "cli-output", lambda: "CLI output differs from formatter output for emitted lines")
    return {"messages": len(run.messages)}


def classify_real(case, info):
    return info["messages"] >= 4, ["messages=%d" % min(info["messages"], 10)]


def real_strategy():
    from .. import programs as P

    safe = names().map(V.fix_name)
    return P.programs(max_nodes=8, max_depth=3, names=safe).map(lambda p: {"program": p})


# -------------------------------------------------------------------- CLI


def run_cli(data, argv):
    saved = (pp.stdin, pp.stdout, sys.argv)
    out = io.StringIO()
    pp.stdin = io.BytesIO(data)
    pp.stdout = out
    sys.argv = ["eliot-prettyprint"] + list(argv)
    try:
        try:
            pp._main()
        except SystemExit as e:
            raise Violation("cli-exit", "eliot-prettyprint exited with %r" % (e.code,))
        except Exception as e:
            raise Violation("cli-raised", "eliot-prettyprint aborted with %r on input %r" % (e, data[:300]))
    finally:
        pp.stdin, pp.stdout, sys.argv = saved
    return out.getvalue()


def encode_line(m):
    """One log line for message m: eliot's encoder, or Python's json for values only a foreign producer writes."""
    text = json.dumps(m)
    if "NaN" in text or "Infinity" in text:
        return text.encode("utf-8")
    try:
        return _dumps_bytes(m, default=json_default)
    except TypeError:
        return text.encode("utf-8")


def line_bytes(spec):
    kind = spec[0]
    if kind == "msg":
        return encode_line(spec[1])
    if kind == "bytes":
        return bytes(spec[1]).replace(b"\n", b" ")
    if kind == "text":
        return spec[1].encode("utf-8").replace(b"\n", b" ")
    if kind == "json":
        return json.dumps(spec[1]).encode("utf-8")
    if kind == "missing":
        m = dict(spec[1])
        for k in spec[2]:
            m.pop(REQUIRED[k % 3], None)
        if all(k in m for k in REQUIRED):
            m.pop("timestamp")
        return encode_line(m)
    raise ValueError(kind)


def classify_line(raw):
    """Independent classifier of one input line (without its newline)."""
    try:
        value = json.loads(raw)
    except ValueError:
        return "notjson", None
    if not isinstance(value, dict) or any(k not in value for k in REQUIRED):
        return "notmessage", None
    return "message", value


def check_cli(case):
    raws = [line_bytes(s) for s in case["lines"]]
    data = b"".join(r + b"\n" for r in raws)
    if case.get("no_final_newline") and raws and raws[-1]:
        data = data[:-1]
    argv = []
    if case.get("compact"):
        argv.append("-c")
    if case.get("local"):
        argv.append("-l")
    out = run_cli(data, argv)
    classes = []
    expected = ""
    for raw in raws:
        kind, value = classify_line(raw)
        classes.append(kind)
        if kind == "notjson":
            expected += "Not JSON: {}\n\n".format(raw)
        elif kind == "notmessage":
            expected += "Not an Eliot message: {}\n\n".format(raw)
        else:
            fmt = pp.compact_format if case.get("compact") else pp.pretty_format
            expected += fmt(value, bool(case.get("local"))) + "\n"
    require(out == expected, "cli-output", lambda: "input classes %r\n got      %r\n expected %r" % (classes, out[:500], expected[:500]))
    return {"classes": sorted(set(classes)), "lines": len(raws)}


def _well_typed(value):
    """Is this object inside the property's domain (required fields of the right types)?"""
    try:
        if not isinstance(value["task_uuid"], str):
            return False
        lvl = value["task_level"]
        if not isinstance(lvl, list) or not all(isinstance(x, int) and not isinstance(x, bool) for x in lvl):
            return False
        ts = value["timestamp"]
        if isinstance(ts, bool) or not isinstance(ts, (int, float)) or not (0 <= ts <= 4e9):
            return False
    except Exception:
        return False
    return all(isinstance(k, str) for k in value)


def _depth(v, d=0):
    if d > 60:
        return d
    if isinstance(v, list):
        return max([d] + [_depth(x, d + 1) for x in v])
    if isinstance(v, dict):
        return max([d] + [_depth(x, d + 1) for x in v.values()])
    return d


def check_stream(data, compact=False):
    """
    Oracle for a raw byte stream (used by the atheris target and by replay of
    its findings).  Returns None when the stream is outside the property's
    domain (an object with ill-typed required fields, or absurd nesting).
    """
    raws = data.split(b"\n")
    terminated = [True] * len(raws)
    if raws and raws[-1] == b"":
        raws.pop()
        terminated.pop()
    elif raws:
        terminated[-1] = False
    expected = ""
    classes = set()
    for raw, term in zip(raws, terminated):
        # a reader sees the line with its terminator (matters for UTF-16/32 detection of odd byte strings)
        kind, value = classify_line(raw + (b"\n" if term else b""))
        classes.add(kind)
        if kind == "notjson":
            expected += "Not JSON: {}\n\n".format(raw)
        elif kind == "notmessage":
            expected += "Not an Eliot message: {}\n\n".format(raw)
        else:
            if not _well_typed(value) or _depth(value) > 40:
                return None
            fmt = pp.compact_format if compact else pp.pretty_format
            try:
                expected += fmt(value) + "\n"
            except Exception as e:
                raise Violation("format-raised", "%r for %r" % (e, raw[:200]))
    out = run_cli(data, ["-c"] if compact else [])
    require(out == expected, "cli-output", lambda: "input %r\n got      %r\n expected %r" % (data[:300], out[:400], expected[:400]))
    return {"classes": sorted(classes), "lines": len(raws)}


def check_raw(case):
    data = bytes.fromhex(case["data_hex"])
    info = check_stream(data, compact=bool(data and data[0] & 1))
    return info or {"classes": [], "lines": 0}


def classify_raw(case, info):
    return len(info["classes"]) >= 3, ["classes=%d" % len(info["classes"])]


def fuzz_runner(mod, facet, tier, seed, shard, nshards, stats):
    """Coverage-guided fuzzing of the CLI with atheris, in a subprocess."""
    import shutil
    import subprocess
    import tempfile
    from ..core import VERIF, REPO, run_one

    deps = os.path.join(VERIF, ".deps")
    probe = subprocess.run([sys.executable, "-c", "import atheris"], env=dict(os.environ, PYTHONPATH=deps), capture_output=True)
    if probe.returncode != 0:
        subprocess.run(
            [sys.executable, "-m", "pip", "install", "--no-index", "--find-links", "/opt/veriftools/wheels", "--target", deps, "atheris"],
            capture_output=True,
        )
        probe = subprocess.run([sys.executable, "-c", "import atheris"], env=dict(os.environ, PYTHONPATH=deps), capture_output=True)
    if probe.returncode != 0:
        stats.extra["atheris"] = "unavailable; facet skipped"
        return
    runs = max(1000, facet.budget[tier] // nshards)
    work = tempfile.mkdtemp(prefix="c20fuzz-")
    try:
        corpus_out = os.path.join(work, "corpus")
        os.makedirs(corpus_out)
        crashes = os.path.join(work, "crashes") + os.sep
        os.makedirs(crashes)
        stats_file = os.path.join(work, "stats.json")
        seeds = os.path.join(VERIF, "corpus", "atheris-c20")
        cmd = [
            sys.executable,
            "-m",
            "pbt.fuzz_c20",
            stats_file,
            "-runs=%d" % runs,
            "-seed=%d" % (seed * 1000 + shard + 1),
            "-max_len=300",
            "-dict=" + os.path.join(VERIF, "corpus", "atheris-c20.dict"),
            "-artifact_prefix=" + crashes,
            "-timeout=20",
            "-rss_limit_mb=2048",
            corpus_out,
        ]
        if shard % 2 == 0:
            cmd.append(seeds)  # half of the shards start from the seed corpus, half from nothing
        env = dict(os.environ, PYTHONPATH=VERIF + os.pathsep + deps, PYTHONHASHSEED="0", ELIOT_VERIF_REPO=REPO)
        p = subprocess.run(cmd, env=env, cwd=VERIF, capture_output=True, text=True, timeout=3600)
        data = {}
        if os.path.exists(stats_file):
            with open(stats_file) as f:
                data = json.load(f)
        stats.evaluations += int(data.get("execs", 0))
        for h in data.get("nontrivial", []):
            stats.nontrivial.add(bytes.fromhex(h))
        for k, v in data.get("classes", {}).items():
            stats.labels[k] = stats.labels.get(k, 0) + v
        stats.labels["discarded-out-of-domain"] = stats.labels.get("discarded-out-of-domain", 0) + int(data.get("discarded", 0))
        for hx in data.get("samples", [])[:2]:
            stats.small.append((len(hx), {"data_hex": hx}))
        stats.extra["atheris_runs_requested"] = runs
        stats.extra["seed_corpus"] = "yes" if shard % 2 == 0 else "empty"
        for name in sorted(os.listdir(crashes)):
            with open(os.path.join(crashes, name), "rb") as f:
                raw = f.read()
            case = {"data_hex": raw.hex()}
            info, violation, key = run_one(mod, facet, case)
            if violation is not None and key is None:
                stats.note_failure(case, violation)
            elif name.startswith(("crash", "timeout", "oom")) and violation is None:
                stats.extra["unreproduced_artifact"] = name
        if p.returncode not in (0,) and not os.listdir(crashes) and "Done" not in p.stderr:
            stats.extra["fuzzer_exit"] = "%d: %s" % (p.returncode, p.stderr[-300:])
    finally:
        shutil.rmtree(work, ignore_errors=True)


def classify_cli(case, info):
    kinds = sorted(set(s[0] for s in case["lines"]))
    labels = ["line:" + k for k in kinds] + ["classes=%d" % len(info["classes"])]
    if case.get("compact"):
        labels.append("-c")
    if case.get("local"):
        labels.append("-l")
    return len(kinds) >= 3, labels


def cli_strategy():
    line = st.one_of(
        messages().map(lambda m: ["msg", m]),
        messages().map(lambda m: ["msg", m]),
        st.binary(max_size=12).map(lambda b: ["bytes", list(b)]),
        st.sampled_from([[255, 254], [0xE9, 0x74, 0xE9], [0xC3], [123, 0xFF, 125]]).map(lambda b: ["bytes", b]),
        st.text(max_size=12).map(lambda t: ["text", t]),
        st.sampled_from(["NOT JSON!!", "{", "[1,", "{'a': 1}", "nul", "", " ", "{}x"]).map(lambda t: ["text", t]),
        st.one_of(st.integers(-5, 5), st.floats(allow_nan=False, allow_infinity=False), st.text(max_size=5), st.none(), st.booleans(), st.lists(st.integers(0, 3), max_size=3)).map(lambda v: ["json", v]),
        st.sampled_from([123, [1, 2], "x", None, True, 1.5, [], {}, [{"task_uuid": "u"}]]).map(lambda v: ["json", v]),
        st.tuples(messages(), st.lists(st.integers(0, 2), min_size=1, max_size=3)).map(lambda p: ["missing", p[0], p[1]]),
    )
    return st.builds(
        lambda compact, local, nfn, lines: {"compact": compact, "local": local, "no_final_newline": nfn, "lines": lines},
        st.booleans(),
        st.sampled_from([False, False, False, True]),
        st.booleans(),
        st.lists(line, min_size=1, max_size=8),
    )


# ----------------------------------------------------------------- filter

EXPRS = [
    ("J", lambda J: J),
    ("J['task_uuid']", lambda J: J["task_uuid"]),
    ("J.get('zz')", lambda J: J.get("zz")),
    ("J.get('n', 0)", lambda J: J.get("n", 0)),
    ("SKIP if J.get('n', 0) % 2 else J", lambda J: SKIPPED if J.get("n", 0) % 2 else J),
    ("J if J.get('message_type') == 'app:a' else SKIP", lambda J: J if J.get("message_type") == "app:a" else SKIPPED),
    ("J['task_level'][1:]", lambda J: J["task_level"][1:]),
    ("len(J) > 4", lambda J: len(J) > 4),
    ("''", lambda J: ""),
    ("(datetime.utcfromtimestamp(J['timestamp']) + timedelta(seconds=1)).replace(microsecond=0)", lambda J: (datetime.datetime.utcfromtimestamp(J["timestamp"]) + datetime.timedelta(seconds=1)).replace(microsecond=0).isoformat()),
    ("SKIP if J['task_level'] == [1] else J['task_level']", lambda J: SKIPPED if J["task_level"] == [1] else J["task_level"]),
    # expressions that change the message in place and return it (redacting / annotating a log)
    ("J.update(host='web1') or J", lambda J: dict(J, host="web1")),
    ("[J.pop('task_uuid', None), J][1]", lambda J: dict((k, v) for k, v in J.items() if k != "task_uuid")),
    ("J if J.setdefault('seen', True) else SKIP", lambda J: dict(J, seen=J.get("seen", True)) if J.get("seen", True) else SKIPPED),
]
SKIPPED = object()


class FakeSys(object):
    def __init__(self, argv, stdin):
        self.argv = argv
        self.stdin = stdin
        # a real standard output: text layer over bytes, UTF-8, strict
        self.stdout = _Utf8Out()
        self.stderr = io.StringIO()


class _Utf8Out(io.TextIOWrapper):
    def __init__(self):
        io.TextIOWrapper.__init__(self, io.BytesIO(), encoding="utf-8", errors="strict", newline="\n")

    def getvalue(self):
        self.flush()
        return self.buffer.getvalue().decode("utf-8")


def check_filter(case):
    expr, model = EXPRS[case["expr"] % len(EXPRS)]
    msgs = []
    for i, m in enumerate(case["messages"]):
        m = dict(m)
        m["n"] = i if case.get("number") else m.get("n", i * 3)
        if not isinstance(m["n"], int) or isinstance(m["n"], bool):
            m["n"] = i
        if case.get("surrogate") and i == 0:
            # a foreign producer (or a name with undecodable bytes) wrote a lone-surrogate escape: valid JSON
            m["sur"] = "x\udcffy"
        msgs.append(m)
    raws = [encode_line(m) for m in msgs]
    loaded = [json.loads(r) for r in raws]
    expected = []
    for J in loaded:
        v = model(J)
        if v is not SKIPPED:
            expected.append(v)
    mode = case["mode"]
    try:
        if mode == "main-text":
            text = b"".join(r + b"\n" for r in raws).decode("utf-8")
            fake = FakeSys(["eliot-filter", expr], io.StringIO(text))
            rc = ef.main(fake)
            require(rc == 0, "filter-exit", "main returned %r" % (rc,))
            out = fake.stdout.getvalue()
        elif mode == "main-textio":
            data = b"".join(r + b"\n" for r in raws)
            fake = FakeSys(["eliot-filter", expr], io.TextIOWrapper(io.BytesIO(data), encoding="utf-8", newline="\n"))
            rc = ef.main(fake)
            require(rc == 0, "filter-exit", "main returned %r" % (rc,))
            out = fake.stdout.getvalue()
        else:
            o = _Utf8Out()
            ef.EliotFilter(expr, [r + b"\n" for r in raws], o).run()
            out = o.getvalue()
    except Violation:
        raise
    except Exception as e:
        raise Violation("filter-raised", "%r for expression %r (mode %s) on %r" % (e, expr, mode, raws[:2]))
    require(out.endswith("\n") or not expected, "filter-output", "output does not end with a newline")
    out_lines = out.split("\n")[:-1] if out else []
    require(len(out_lines) == len(expected), "filter-count", lambda: "expression %r on %d inputs (mode %s): %d output lines, expected %d" % (expr, len(raws), mode, len(out_lines), len(expected)))
    for i, (line, want) in enumerate(zip(out_lines, expected)):
        try:
            got = json.loads(line)
        except ValueError as e:
            raise Violation("filter-output", "output line %d is not JSON: %r" % (i, line[:200]))
        require(canon(got) == canon(want), "filter-value", lambda: "output %d is %s, expression gives %s" % (i, canon(got)[:300], canon(want)[:300]))
    special = any(ch in r.decode("utf-8") for r in raws for ch in (" ", " ", "\x85", "\x1c", "\x0b", "\x0c"))
    return {"skipped": len(raws) - len(expected), "special": special, "n": len(raws)}


def classify_filter(case, info):
    labels = ["mode:" + case["mode"], "expr=%d" % (case["expr"] % len(EXPRS))]
    if info["skipped"]:
        labels.append("skipped-some")
    if info["special"]:
        labels.append("unicode-line-separator-in-value")
    if case.get("surrogate"):
        labels.append("lone-surrogate-escape-in-input")
    return bool(info["skipped"] or info["special"] or case["expr"] % len(EXPRS) in (2, 3, 8)), labels


def filter_strategy():
    return st.builds(
        lambda sur, mode, expr, number, msgs: {"surrogate": sur, "mode": mode, "expr": expr, "number": number, "messages": msgs},
        st.sampled_from([False, False, True]),
        st.sampled_from(["main-text", "main-textio", "bytes"]),
        st.integers(0, len(EXPRS) - 1),
        st.booleans(),
        st.lists(messages(), min_size=1, max_size=6),
    )


def _known_f19(facet, case, violation):
    # field names are written raw: a name containing a line break breaks the compact form's single line
    m = case.get("message") or {}
    return facet == "format" and violation.kind == "compact-not-one-line" and any(isinstance(k, str) and ("\n" in k or "\r" in k) for k in m)


KNOWN = {"F19-line-break-in-field-name": _known_f19}

FACETS = [
    Facet("format", format_strategy, check_format, classify_format, quick=2000, thorough=60000),
    Facet("real", real_strategy, check_real, classify_real, quick=150, thorough=3000),
    Facet("cli", cli_strategy, check_cli, classify_cli, quick=600, thorough=20000),
    Facet("filter", filter_strategy, check_filter, classify_filter, quick=600, thorough=20000),
    Facet("cli-fuzz", None, check_raw, classify_raw, quick=40000, thorough=2400000, quick_shards=4, thorough_shards=8, runner=fuzz_runner),
]
