"""
C16 - loggers are safe to write to from many threads at once.

Facet 'memorylogger': line-level schedules (pbt/sched.py, tracing
eliot/_output.py) of 2-3 threads performing generated sequences of write /
write_traceback / validate / serialize / flush_tracebacks / reset on one
MemoryLogger.  Facet 'file': 2-4 threads writing through one
FileDestination to a real file behind a Python-level raw file whose write()
is a yield point.  Facet 'free-running': real threads, no tracing.
"""

import io
import json
import os
import sys
import tempfile
import threading

from hypothesis import strategies as st

from ..core import Facet, Violation, HarnessError, require, canon, setup_path
from .. import sched

setup_path()
from eliot import MemoryLogger, MessageType, Field, FileDestination, ValidationError, write_traceback  # noqa: E402
from eliot import _output  # noqa: E402
from eliot._traceback import TRACEBACK_MESSAGE  # noqa: E402

PROPERTY = "C16"
LEVEL = "exploration"
RULE = (
    "Schedules are plans [[steps, worker], ...] executed by a harness-owned scheduler that parks every worker thread at "
    "every source line of eliot/_output.py (sys.settrace) and at every lock acquisition of the output layer (locks made "
    "cooperative): Hypothesis-generated plans, plus the complete set of single-preemption plans for each generated "
    "operation mix. Facet memorylogger: 2-3 threads x 1-4 operations each from {write(msg_i, serializer_i), "
    "write_traceback, validate, serialize, flush_tracebacks(E), reset} on one MemoryLogger; oracle after join: "
    "len(messages)==len(serializers), serializers[k] is the serializer tagged in messages[k], tracebackMessages is exactly "
    "the unflushed traceback messages still in messages, every serialize() snapshot is a correctly serialised, in-order "
    "selection of written messages, no thread raised, every written message appears exactly once when no reset ran. Facet "
    "file: 2-4 threads x 1-3 messages through one FileDestination (binary or text) onto a real file behind a Python-level "
    "raw file (each write() call is a yield point, writelines() falls back to write() like io.IOBase), plain or seekable, "
    "optionally refusing the write of chosen messages with OSError; oracle: the multiset of lines equals the multiset of "
    "expected serialisations of the messages whose write was not refused - none torn, merged, or missing. When validate() "
    "races serialize() (no tracebacks/reset in the mix) every snapshot must be a view from entirely before or entirely "
    "after the validate. Facets two-files(-enum): the same through one Logger whose Destinations "
    "holds two file destinations (every file must hold every line once). Facet free-running: 4-8 real "
    "threads x 300-2000 writes without tracing, same oracles. Non-trivial: a plan that preempts a worker between two "
    "consecutive _output.py lines of one operation (or between two write() calls). Distinct = canonical JSON of the case."
)
ASSUMPTIONS = [
    "pausing a thread at a `line` trace event does not change what the traced code computes",
    "preemption inside a single C-level file.write is only reachable by the free-running facet",
]


class AErr(Exception):
    pass


class BErr(Exception):
    pass


def make_types(n):
    ident = lambda v: v  # noqa: E731
    return [
        MessageType("c16:t%d" % i, [Field("v", lambda v, i=i: [i, v], ""), Field("sid", ident, ""), Field("who", ident, "")], "")
        for i in range(n)
    ]


def _sanitize_ops(threads_ops):
    """
    validate() serialises the stored messages in place (documented side
    effect), so a second validate() or a serialize() after it re-applies
    serializers to their own output by design: keep one validate per case
    and no serialize next to it.
    """
    has_validate = False
    out = []
    for ops in threads_ops:
        keep = []
        for op in ops:
            if op[0] == "validate":
                if has_validate:
                    continue
                has_validate = True
            keep.append(op)
        out.append(keep)
    if has_validate:
        kinds = set(op[0] for ops in out for op in ops)
        if kinds & {"tb", "reset", "write_invalid"}:
            out = [[op for op in ops if op[0] != "serialize"] for ops in out]
        # otherwise validate and serialize may race: every serialize() snapshot must then be a view from entirely
        # before or entirely after the validate (see the snapshot oracle)
    return out


def check_memorylogger(case):
    threads_ops = _sanitize_ops(case["threads"])
    with sched.cooperative_locks(_output):
        logger = MemoryLogger()
    types = make_types(4)
    written = []  # (thread, op index, kind, payload)
    snapshots = []
    flushed = []
    events = []  # harness-side order of completed traceback writes and started flushes
    lock = threading.Lock()
    had_reset = any(op[0] == "reset" for ops in threads_ops for op in ops)
    has_validate_op = any(op[0] == "validate" for ops in threads_ops for op in ops)
    has_invalid = any(op[0] == "write_invalid" for ops in threads_ops for op in ops)

    def worker(tid, ops):
        def run():
            for k, op in enumerate(ops):
                kind = op[0]
                if kind == "write":
                    sid = op[1] % len(types)
                    msg = {"message_type": types[sid].message_type, "v": op[2], "sid": sid, "who": "%d.%d" % (tid, k), "task_uuid": "u", "task_level": [1], "timestamp": 1.0}
                    logger.write(msg, types[sid]._serializer)
                    with lock:
                        written.append(("w", "%d.%d" % (tid, k)))
                elif kind == "tb":
                    e = (AErr if op[1] % 2 == 0 else BErr)("%d.%d" % (tid, k))
                    write_traceback(logger, exc_info=(type(e), e, None))
                    with lock:
                        written.append(("tb", "%d.%d" % (tid, k)))
                        events.append(("tb-done", "%d.%d" % (tid, k), op[1] % 2))
                elif kind == "write_invalid":
                    sid = op[1] % len(types)
                    msg = {"message_type": types[sid].message_type, "v": op[2], "sid": sid, "who": "%d.%d" % (tid, k), "undeclared": 1, "task_uuid": "u", "task_level": [1], "timestamp": 1.0}
                    logger.write(msg, types[sid]._serializer)
                    with lock:
                        written.append(("w", "%d.%d" % (tid, k)))
                elif kind == "validate":
                    try:
                        logger.validate()
                    except (ValidationError, TypeError):
                        # by design when an invalid message was written
                        if not has_invalid:
                            raise
                elif kind == "serialize":
                    snap = logger.serialize()
                    with lock:
                        snapshots.append(snap)
                elif kind == "flush":
                    with lock:
                        events.append(("flush-start", None, op[1] % 2))
                    got = logger.flush_tracebacks(AErr if op[1] % 2 == 0 else BErr)
                    with lock:
                        flushed.extend(got)
                elif kind == "reset":
                    logger.reset()
                else:
                    raise HarnessError("unknown op %r" % (op,))

        return run

    s = sched.Scheduler(("eliot/_output.py",), case["plan"])
    s.run([worker(i, ops) for i, ops in enumerate(threads_ops)])
    for wid, e in s.errors.items():
        if isinstance(e, HarnessError):
            raise e
        raise Violation("thread-raised", "thread %d raised %r" % (wid, e))
    msgs, sers, tbs = logger.messages, logger.serializers, logger.tracebackMessages
    require(len(msgs) == len(sers), "lists-misaligned", lambda: "%d messages but %d serializers" % (len(msgs), len(sers)))
    for k, (m, ser) in enumerate(zip(msgs, sers)):
        if m.get("message_type") == "eliot:traceback":
            want = TRACEBACK_MESSAGE._serializer
        else:
            want = types[m["sid"]]._serializer
        require(ser is want, "wrong-serializer", lambda: "messages[%d] (%s) is paired with the serializer of another message" % (k, m.get("who") or m.get("reason")))
    seen = {}
    for m in msgs:
        key = m.get("who") or str(m.get("reason"))
        seen[key] = seen.get(key, 0) + 1
    dup = [k for k, c in seen.items() if c > 1]
    require(not dup, "duplicate", lambda: "messages recorded more than once: %r" % dup)
    if not had_reset:
        want_keys = sorted(w[1] for w in written)
        require(sorted(seen) == want_keys, "lost-message", lambda: "written %r, logger holds %r" % (want_keys, sorted(seen)))
    # traceback bookkeeping
    tb_in_msgs = [m for m in msgs if m.get("message_type") == "eliot:traceback"]
    for t in tbs:
        require(any(t is m for m in tb_in_msgs), "traceback-list-stale", "tracebackMessages holds a message that is not in messages")
    ids_tbs = set(id(t) for t in tbs)
    require(len(ids_tbs) == len(tbs), "traceback-duplicate", "tracebackMessages holds a message twice")
    if not had_reset:
        flushed_ids = [id(m) for m in flushed]
        require(len(set(flushed_ids)) == len(flushed_ids), "flushed-twice", "a traceback message was returned by two flushes")
        for m in tb_in_msgs:
            in_tbs = id(m) in ids_tbs
            in_fl = id(m) in set(flushed_ids)
            require(in_tbs != in_fl, "traceback-accounting", lambda: "traceback %s: in tracebackMessages=%r, flushed=%r" % (m.get("reason"), in_tbs, in_fl))
        # a flush that started after a traceback of its class had been written must have returned it (unless a
        # validate() is in the mix: it serialises the stored tracebacks in place, after which flush_tracebacks(E)
        # cannot recognise them any more - behaviour the property does not speak about)
        done_at = dict((key, (i, cls)) for i, (what, key, cls) in enumerate(events) if what == "tb-done")
        for m in ([] if has_validate_op else tbs):
            key = str(m.get("reason"))
            if key not in done_at:
                continue
            i, cls = done_at[key]
            later = [j for j, (what, _, c) in enumerate(events) if what == "flush-start" and c == cls and j > i]
            require(
                not later,
                "flush-missed-traceback",
                lambda: "traceback %s was written before flush_tracebacks of its class was called, but that flush did not return it and it is still unflushed" % key,
            )
    # snapshots from serialize(): correctly serialised, in-order selection
    order = dict((m.get("who"), i) for i, m in enumerate(msgs) if m.get("who"))
    for snap in snapshots:
        last = -1
        for d in snap:
            if d.get("message_type") == "eliot:traceback":
                require(isinstance(d.get("reason"), str) and isinstance(d.get("exception"), str), "snapshot-not-serialized", "traceback in serialize() output not serialised")
                continue
            require(d["v"][0] == d["sid"] and isinstance(d["v"], list) and len(d["v"]) == 2, "snapshot-wrong-serializer", lambda: "serialize() applied another message's serializer: %r" % (d,))
            if not had_reset and d["who"] in order:
                require(order[d["who"]] > last, "snapshot-order", "serialize() snapshot out of order")
                last = order[d["who"]]
    has_validate = any(op[0] == "validate" for ops in threads_ops for op in ops)
    if has_validate and snapshots:
        # validate() serialised the messages it saw in place; they are the ones stored in serialised form now
        validated = set(m["who"] for m in msgs if isinstance(m.get("v"), list))
        for snap in snapshots:
            in_snap = set(d["who"] for d in snap)
            twice = set(d["who"] for d in snap if isinstance(d["v"][1], list))
            require(
                not twice or (twice == validated and validated <= in_snap),
                "snapshot-mixes-two-states",
                lambda: "serialize() returned a view that never existed: messages %r as after validate(), %r as before it, validate() covered %r"
                % (sorted(twice), sorted(in_snap - twice), sorted(validated)),
            )
    inside = s.switched_inside(("write", "validate", "serialize", "reset", "flushTracebacks", "_validate_message", "exclusively_f", "_snapshot"))
    return {"steps": s.steps, "switches": len(s.switches), "switch_inside": len(inside), "reset": had_reset, "ops": sum(len(o) for o in threads_ops)}


def classify_ml(case, info):
    kinds = sorted(set(op[0] for ops in case["threads"] for op in ops))
    labels = ["threads=%d" % len(case["threads"]), "switches=%d" % min(info["switches"], 6)] + ["op:" + k for k in kinds]
    if info["switch_inside"]:
        labels.append("preempted-inside-operation")
    return info["switch_inside"] >= 1, labels


def ml_ops():
    op = st.one_of(
        st.tuples(st.just("write"), st.integers(0, 3), st.integers(0, 9)).map(list),
        st.tuples(st.just("write"), st.integers(0, 3), st.integers(0, 9)).map(list),
        st.tuples(st.just("tb"), st.integers(0, 1)).map(list),
        st.tuples(st.just("write_invalid"), st.integers(0, 3), st.integers(0, 9)).map(list),
        st.just(["validate"]),
        st.just(["serialize"]),
        st.tuples(st.just("flush"), st.integers(0, 1)).map(list),
        st.just(["reset"]),
    )
    return st.lists(op, min_size=1, max_size=4)


def ml_strategy():
    return st.builds(
        lambda plan, threads: {"plan": plan, "threads": threads},
        sched.plans(max_segments=8, max_steps=30, workers=3),
        st.lists(ml_ops(), min_size=2, max_size=3),
    )


def ml_enum_runner(mod, facet, tier, seed, shard, nshards, stats):
    """For a fixed family of operation mixes: every single-preemption plan."""
    from ..core import enumerate_cases

    mixes = [
        [[["write", 0, 1]], [["write", 1, 2]]],
        [[["write", 0, 1], ["write", 2, 3]], [["write", 1, 2]]],
        [[["write", 0, 1]], [["reset"]], [["write", 1, 2]]],
        [[["tb", 0]], [["flush", 0]], [["write", 1, 2]]],
        [[["write", 0, 1]], [["serialize"]], [["write", 1, 5]]],
        [[["write", 0, 1]], [["validate"]], [["tb", 1]]],
        [[["write", 0, 1], ["reset"]], [["write", 1, 2], ["write", 2, 2]]],
        [[["write_invalid", 0, 1], ["validate"], ["write", 1, 2]], [["write", 2, 3]]],
    ]
    if tier == "quick":
        mixes = mixes[:4] + mixes[-1:]
    cases = []
    # two mixes need longer / finer plans: a write racing flush_tracebacks (two preemptions, every offset) and a
    # thread whose validate() raised before its next write (the interesting window is late in its run)
    for k in range(0, 60):
        for j in range(1, 24):
            cases.append({"plan": [[k, 0], [j, 1], [10**6, 0]], "threads": [[["tb", 0]], [["flush", 0]]]})
    for k in range(0, 200 if tier == "thorough" else 140):
        cases.append({"plan": [[k, 0], [10**6, 1]], "threads": [[["write_invalid", 0, 1], ["validate"], ["write", 1, 2]], [["write", 2, 3]]]})
    # flush racing flush (different classes), and flush racing reset
    ff_mix = [[["tb", 0], ["tb", 1], ["flush", 0]], [["flush", 1]]]
    fr_mix = [[["tb", 0], ["tb", 1], ["flush", 0]], [["reset"], ["tb", 1]]]
    for k in range(0, 110 if tier == "thorough" else 80):
        for mix in (ff_mix, fr_mix):
            cases.append({"plan": [[k, 0], [10**6, 1]], "threads": mix})
            if k % 2 == 0:
                for j in (2, 5, 9):
                    cases.append({"plan": [[k, 0], [j, 1], [10**6, 0]], "threads": mix})
    # serialize() racing validate() over several stored messages: preempt the validating thread at every line
    vs_mix = [[["write", 0, 1], ["write", 1, 2], ["write", 2, 3], ["validate"]], [["serialize"]]]
    for k in range(0, 150 if tier == "thorough" else 110):
        cases.append({"plan": [[k, 0], [10**6, 1]], "threads": vs_mix})
        if k % 3 == 0:
            for j in (3, 8, 14):
                cases.append({"plan": [[k, 0], [j, 1], [10**6, 0]], "threads": vs_mix})
    for mix in mixes:
        n = len(mix)
        depth = 45 if tier == "thorough" else 30
        for plan in sched.single_preemption_plans(n, depth):
            cases.append({"plan": plan, "threads": mix})
        if n == 3:
            # second preemption into the third worker
            for k in range(0, depth, 2):
                for j in range(1, 16, 2):
                    cases.append({"plan": [[k, 0], [j, 1], [10**6, 2]], "threads": mix})
                    cases.append({"plan": [[k, 1], [j, 0], [10**6, 2]], "threads": mix})
    stats.extra["enumerated_plans"] = len(cases)
    enumerate_cases(mod, facet, cases, shard, nshards, stats, exhaustive=True)


# ------------------------------------------------------------------- files


class RawFile(io.RawIOBase):
    """Python-level raw file: every write() is visible to the scheduler."""

    def __init__(self, path, text, seekable=False, fail_tokens=()):
        io.RawIOBase.__init__(self)
        self._f = open(path, "ab" if not seekable else "r+b", buffering=0)
        self._text = text
        self._seekable = seekable
        self._fail = [t.encode("ascii") for t in fail_tokens]
        self.calls = []

    def writable(self):
        return True

    def seekable(self):
        return self._seekable

    def tell(self):
        if not self._seekable:
            raise OSError("not seekable")
        return self._f.tell()

    def seek(self, pos, whence=0):
        if not self._seekable:
            raise OSError("not seekable")
        return self._f.seek(pos, whence)

    def truncate(self, size=None):
        if not self._seekable:
            raise OSError("not seekable")
        return self._f.truncate(size)

    def write(self, data):
        if self._text:
            if isinstance(data, bytes):
                raise TypeError("text file")
            raw = data.encode("utf-8")
        else:
            if isinstance(data, str):
                raise TypeError("binary file")
            raw = bytes(data)
        who = getattr(sched._tls, "wid", None)
        self.calls.append((who, len(raw)))
        if any(t in raw for t in self._fail):
            # the device refuses this write; nothing is written
            raise OSError(28, "No space left on device")
        if self._seekable:
            self._f.seek(0, 2)
        self._f.write(raw)
        return len(data)

    def flush(self):
        pass

    def close(self):
        if not self._f.closed:
            self._f.close()
        io.RawIOBase.close(self)


def expected_line(msg):
    return json.dumps(msg, sort_keys=True)


def check_file(case):
    text = bool(case["text"])
    tmp = tempfile.NamedTemporaryFile(prefix="c16-", delete=False)
    tmp.close()
    failing = ["W%d.%dW" % (t, k) for t, k in case.get("fail", [])]
    raw = RawFile(tmp.name, text, bool(case.get("seekable")), failing)
    refused = []
    try:
        dest = FileDestination(file=raw)
        del raw.calls[:]
        msgs = {}

        def worker(tid, payloads):
            def run():
                for k, p in enumerate(payloads):
                    m = {"who": "W%d.%dW" % (tid, k), "p": p, "task_uuid": "u%d" % tid, "task_level": [k + 1], "timestamp": 1.0, "message_type": "c16"}
                    if m["who"] in failing:
                        # the write of this message fails (and raises to its caller); the others must be unaffected
                        try:
                            dest(m)
                        except OSError:
                            refused.append(m["who"])
                        continue
                    msgs[m["who"]] = m
                    dest(m)

            return run

        s = sched.Scheduler(("eliot/_output.py", "pbt/props/c16.py"), case["plan"])
        s.run([worker(i, p) for i, p in enumerate(case["threads"])])
        for wid, e in s.errors.items():
            if isinstance(e, HarnessError):
                raise e
            raise Violation("thread-raised", "thread %d raised %r" % (wid, e))
        raw.close()
        with open(tmp.name, "rb") as f:
            content = f.read()
    finally:
        raw.close()
        os.unlink(tmp.name)
    verify_lines(content, msgs)
    inside = s.switched_inside(("__call__", "write"))
    return {"steps": s.steps, "switches": len(s.switches), "switch_inside": len(inside), "writes": len(raw.calls), "refused": len(refused)}


def check_two_files(case):
    """Several threads log through one Logger whose Destinations holds two file destinations."""
    from eliot import Logger
    from eliot._output import Destinations

    paths = []
    raws = []
    for text in case["texts"]:
        tmp = tempfile.NamedTemporaryFile(prefix="c16-", delete=False)
        tmp.close()
        paths.append(tmp.name)
        raws.append(RawFile(tmp.name, bool(text)))
    saved = Logger._destinations
    with sched.cooperative_locks(_output):
        fresh = Destinations()
    Logger._destinations = fresh
    try:
        fresh.add(*[FileDestination(file=r) for r in raws])
        for r in raws:
            del r.calls[:]
        msgs = {}
        logger = Logger()

        def worker(tid, payloads):
            def run():
                for k, p in enumerate(payloads):
                    m = {"who": "W%d.%dW" % (tid, k), "p": p, "task_uuid": "u%d" % tid, "task_level": [k + 1], "timestamp": 1.0, "message_type": "c16"}
                    msgs[m["who"]] = m
                    logger.write(dict(m))

            return run

        s = sched.Scheduler(("eliot/_output.py", "pbt/props/c16.py"), case["plan"])
        s.run([worker(i, p) for i, p in enumerate(case["threads"])])
        for wid, e in s.errors.items():
            if isinstance(e, HarnessError):
                raise e
            raise Violation("thread-raised", "thread %d raised %r" % (wid, e))
        contents = []
        for r, path in zip(raws, paths):
            r.close()
            with open(path, "rb") as f:
                contents.append(f.read())
    finally:
        Logger._destinations = saved
        for r, path in zip(raws, paths):
            r.close()
            os.unlink(path)
    for i, content in enumerate(contents):
        try:
            verify_lines(content, msgs)
        except Violation as v:
            raise Violation(v.kind, "file %d of 2: %s" % (i, v.detail))
    inside = s.switched_inside(("__call__", "write", "send", "_encode"))
    return {"steps": s.steps, "switches": len(s.switches), "switch_inside": len(inside), "writes": sum(len(r.calls) for r in raws), "refused": 0}


def classify_two_files(case, info):
    labels = ["threads=%d" % len(case["threads"]), "files:" + "+".join("text" if t else "binary" for t in case["texts"]), "switches=%d" % min(info["switches"], 6)]
    if info["switch_inside"]:
        labels.append("preempted-inside-write-path")
    return info["switch_inside"] >= 1, labels


def two_files_strategy():
    payload = st.one_of(st.integers(0, 99), st.text(max_size=8))
    return st.builds(
        lambda texts, plan, threads: {"texts": texts, "plan": plan, "threads": threads},
        st.sampled_from([[0, 0], [1, 1], [0, 1]]),
        sched.plans(max_segments=8, max_steps=20, workers=3),
        st.lists(st.lists(payload, min_size=1, max_size=2), min_size=2, max_size=3),
    )


def two_files_enum_runner(mod, facet, tier, seed, shard, nshards, stats):
    from ..core import enumerate_cases

    cases = []
    depth = 80 if tier == "thorough" else 60
    for texts in ([0, 0], [1, 1]):
        for plan in sched.single_preemption_plans(2, depth):
            cases.append({"texts": texts, "plan": plan, "threads": [[1], [2]]})
    # a second preemption back into the first thread
    for k in range(0, depth, 2):
        for j in range(1, 30, 3):
            cases.append({"texts": [0, 0], "plan": [[k, 0], [j, 1], [10**6, 0]], "threads": [[1], [2]]})
    stats.extra["enumerated_plans"] = len(cases)
    enumerate_cases(mod, facet, cases, shard, nshards, stats, exhaustive=True)


def verify_lines(content, msgs):
    require(content.endswith(b"\n") or not msgs, "torn-tail", lambda: "file does not end with a newline: %r" % content[-60:])
    lines = content.split(b"\n")[:-1]
    got = []
    for i, line in enumerate(lines):
        try:
            got.append(json.loads(line.decode("utf-8")))
        except ValueError as e:
            raise Violation("torn-or-merged-line", "line %d is not one JSON message: %r (%s)" % (i, line[:200], e))
    want = sorted(expected_line(m) for m in msgs.values())
    have = sorted(expected_line(m) for m in got)
    require(want == have, "lines-differ", lambda: "expected %d lines, file has %d; missing %r extra %r" % (len(want), len(have), [w for w in want if w not in have][:2], [h for h in have if h not in want][:2]))


def classify_file(case, info):
    labels = ["threads=%d" % len(case["threads"]), "text" if case["text"] else "binary", "switches=%d" % min(info["switches"], 6)]
    if info["switch_inside"]:
        labels.append("preempted-inside-write-path")
    if case.get("seekable"):
        labels.append("seekable-file")
    if info.get("refused"):
        labels.append("a-write-refused-by-the-device")
    return info["switch_inside"] >= 1, labels


def file_strategy():
    payload = st.one_of(st.integers(0, 99), st.text(max_size=8), st.just("x" * 9000))
    return st.builds(
        lambda text, seekable, fail, plan, threads: {"text": text, "seekable": seekable, "fail": fail, "plan": plan, "threads": threads},
        st.booleans(),
        st.booleans(),
        st.one_of(st.just([]), st.lists(st.tuples(st.integers(0, 3), st.integers(0, 1)).map(list), max_size=2)),
        sched.plans(max_segments=8, max_steps=12, workers=4),
        st.lists(st.lists(payload, min_size=1, max_size=3), min_size=2, max_size=4),
    )


def file_enum_runner(mod, facet, tier, seed, shard, nshards, stats):
    from ..core import enumerate_cases

    cases = []
    for text in (0, 1):
        for threads in ([[1], [2]], [[1, 2], [3]], [["x" * 9000], [5]]):
            for plan in sched.single_preemption_plans(2, 14):
                cases.append({"text": text, "plan": plan, "threads": threads})
        # one thread's write is refused by a seekable file while the other thread writes
        for plan in sched.single_preemption_plans(2, 24):
            cases.append({"text": text, "seekable": True, "fail": [[0, 0]], "plan": plan, "threads": [[1, 2], [3]]})
    stats.extra["enumerated_plans"] = len(cases)
    enumerate_cases(mod, facet, cases, shard, nshards, stats, exhaustive=True)


# ------------------------------------------------------------ free running


def check_free(case):
    nthreads, count, text = case["threads"], case["count"], bool(case["text"])
    old = sys.getswitchinterval()
    sys.setswitchinterval(1e-6)
    tmp = tempfile.NamedTemporaryFile(prefix="c16f-", delete=False)
    tmp.close()
    try:
        f = open(tmp.name, "a", encoding="utf-8", newline="\n") if text else open(tmp.name, "ab")
        dest = FileDestination(file=f)
        logger = MemoryLogger()
        types = make_types(4)
        msgs = {}
        errors = []

        def run(tid):
            try:
                for k in range(count):
                    m = {"who": "%d.%d" % (tid, k), "p": k, "task_uuid": "u%d" % tid, "task_level": [k + 1], "timestamp": 1.0, "message_type": "c16"}
                    msgs[m["who"]] = m
                    dest(m)
                    sid = (tid + k) % 4
                    logger.write({"message_type": types[sid].message_type, "v": k, "sid": sid, "who": m["who"], "task_uuid": "u", "task_level": [1], "timestamp": 1.0}, types[sid]._serializer)
            except BaseException as e:
                errors.append(e)

        ts = [threading.Thread(target=run, args=(i,)) for i in range(nthreads)]
        for t in ts:
            t.start()
        for t in ts:
            t.join()
        f.close()
        with open(tmp.name, "rb") as r:
            content = r.read()
    finally:
        sys.setswitchinterval(old)
        os.unlink(tmp.name)
    require(not errors, "thread-raised", lambda: repr(errors[:2]))
    verify_lines(content, msgs)
    require(len(logger.messages) == len(logger.serializers) == nthreads * count, "lists-misaligned", lambda: "%d messages, %d serializers, expected %d" % (len(logger.messages), len(logger.serializers), nthreads * count))
    for k, (m, ser) in enumerate(zip(logger.messages, logger.serializers)):
        require(ser is types[m["sid"]]._serializer, "wrong-serializer", "messages[%d] paired with another message's serializer" % k)
    return {"writes": nthreads * count}


def classify_free(case, info):
    return True, ["threads=%d" % case["threads"], "text" if case["text"] else "binary"]


def free_strategy():
    return st.builds(
        lambda t, c, text: {"threads": t, "count": c, "text": text},
        st.integers(4, 8),
        st.sampled_from([300, 700, 2000]),
        st.booleans(),
    )


FACETS = [
    Facet("memorylogger", ml_strategy, check_memorylogger, classify_ml, quick=250, thorough=20000),
    Facet("memorylogger-enum", None, check_memorylogger, classify_ml, quick=1, thorough=1, runner=ml_enum_runner),
    Facet("file", file_strategy, check_file, classify_file, quick=150, thorough=8000),
    Facet("file-enum", None, check_file, classify_file, quick=1, thorough=1, runner=file_enum_runner),
    Facet("two-files", two_files_strategy, check_two_files, classify_two_files, quick=100, thorough=5000),
    Facet("two-files-enum", None, check_two_files, classify_two_files, quick=1, thorough=1, runner=two_files_enum_runner),
    Facet("free-running", free_strategy, check_free, classify_free, quick=6, thorough=60, quick_shards=2, thorough_shards=4, replayable=False),
]
