"""
C08 - every destination gets each message once, in order; faults isolated and reported.
"""

from hypothesis import strategies as st

from ..core import Facet, Violation, require, canon, setup_path
from .. import programs as P
from .c01 import count_messages

setup_path()
from eliot import Logger  # noqa: E402

PROPERTY = "C08"
LEVEL = "fault_enumeration"
RULE = (
    "1-4 recording destinations, each with a generated failure mask over its call sequence (any subset of call indices, "
    "'every k-th', always, never) and an exception class from a table (several destinations may raise the same class; one "
    "class has a raising __str__), one of them optionally registered mid-run, or all of them registered only after part of the program ran (so that "
    "messages come out of the start-up buffer); x generated logging programs (nested "
    "actions so reports land at different depths). Each destination records what it is offered before raising. Oracle "
    "(a model of the statement, not of the code): every destination is offered exactly the reference sequence (suffix "
    "from its registration), same contents; after each non-report message m follow exactly one eliot:destination_failure "
    "per destination that raised on m, in registration order, carrying the module-qualified class, its text and a "
    "rendering that names m; failures on reports produce no report; number of non-report messages equals the program's "
    "message count. Facets concurrent(-enum): 2-3 threads logging through one Destinations under schedules at source-line or bytecode-instruction granularity "
    "(generated plans and every single preemption): every destination is offered every message exactly once and every "
    "failure on a non-report message is reported exactly once. Non-trivial: >= 2 destinations of which >= 1 fails on a proper non-empty subset of its calls incl. at "
    "least one failure on a report. Distinct = canonical JSON of the case."
)
ASSUMPTIONS = [
    "destinations raise Exception subclasses only and do not mutate messages (caller contract)",
    "where a report sits in the task tree is C02's business and not asserted here",
]

DEST_EXC = [ValueError, RuntimeError, OSError, KeyError, P.BadStrError, P.AppError, ValueError, P.NoModuleError, P.FalsyError, P.EmptyErrors]
REPORT = "eliot:destination_failure"


class RecordingDest(object):
    def __init__(self, index, mask, exc_index, every, oneshot=None, oneshot_raises=False):
        self.index = index
        # ... and then fails on that very call (gives up: unregisters itself, then raises)
        self.oneshot_raises = oneshot_raises
        self.mask = set(mask) if oneshot is None else set()
        self.every = every if oneshot is None else None
        # a destination that unregisters itself while it is being called (after `oneshot` further messages)
        self.oneshot = oneshot
        self.exc_cls = DEST_EXC[exc_index % len(DEST_EXC)]
        self.offered = []
        self.raised = []  # exception object or None per call
        self.runaway = False

    def __call__(self, message):
        k = len(self.offered)
        self.offered.append(dict(message))
        if self.oneshot is not None and k == self.oneshot:
            if self.oneshot_raises and not (message.get("message_type") == REPORT and REPORT in str(message.get("message"))):
                e = self.exc_cls("dest%d gives up on call %d" % (self.index, k))
                self.raised.append(e)
                Logger._destinations.remove(self)
                raise e
            self.raised.append(None)
            Logger._destinations.remove(self)
            return
        if message.get("message_type") == REPORT and REPORT in str(message.get("message")):
            # a report about a failed report: the recursion the property rules
            # out.  Stop failing so that the run ends, and flag it.
            self.runaway = True
            self.raised.append(None)
            return
        if k in self.mask or (self.every and k % self.every == 0):
            e = self.exc_cls("dest%d fails on call %d" % (self.index, k))
            self.raised.append(e)
            raise e
        self.raised.append(None)


def check(case):
    specs = case["dests"]
    dests = [RecordingDest(i, d["mask"], d["exc"], d.get("every"), d.get("oneshot"), bool(d.get("oneshot_raises"))) for i, d in enumerate(specs)]
    late = case.get("late")  # index of a destination registered mid-run, or None
    if late is not None:
        late = late % len(dests)
        if len(dests) == 1:
            late = None
    observer_holder = {}
    reg_at = {}

    def destinations(observer):
        observer_holder["o"] = observer
        first = [d for i, d in enumerate(dests) if i != late]
        pos = case.get("observer_pos", 0) % (len(first) + 1)
        first.insert(pos, observer)
        return first

    def add_late(run, node):
        if late is not None and late not in reg_at:
            reg_at[late] = len(observer_holder["o"].messages)
            Logger._destinations.add(dests[late])

    program = list(case["program"])
    if late is not None:
        cut = case.get("late_at", 1) % (len(program) + 1)
        program.insert(cut, {"op": "hook", "name": "add_late"})
    opts = {"hooks": {"add_late": add_late}}
    if case.get("extractors"):
        # the application registered exception extractors (meant for failed actions) for the classes destinations
        # raise, returning fields named like the report's own
        opts["extractors"] = dict(
            (DEST_EXC[i % len(DEST_EXC)], {"fields": {"reason": "extractor-reason", "message": "extractor-message", "exception": "extractor.Name", "code": i}})
            for i in case["extractors"]
        )
    buffered = case.get("buffer_first")
    if buffered is not None and late is None:
        # part of the program runs before the first add_destinations: those messages come out of the start-up buffer
        holder = {}

        def add_all(run, node):
            pend = getattr(run, "pending_destinations", None)
            if pend:
                run.pending_destinations = None
                Logger._destinations.add(*pend)

        program.insert(buffered % (len(program) + 1), {"op": "hook", "name": "add_all"})
        opts["hooks"]["add_all"] = add_all
        opts["buffer_first"] = True
    run = P.run_program(program, sink="memory", destinations=destinations, opts=opts)
    require(not run.errors, "api-raised", lambda: repr(run.errors))
    require(not any(d.runaway for d in dests), "report-on-report", "a failure while delivering an eliot:destination_failure report was itself reported")
    S = run.messages  # what the never-failing observer was offered
    if late is not None and late not in reg_at:
        # the program ended (exception) before the hook ran
        reg_at[late] = None

    # every destination: exactly the reference sequence from its registration on
    registration = []  # registration order, as eliot holds it
    first = [d for i, d in enumerate(dests) if i != late]
    registration.extend(first)
    if late is not None and reg_at[late] is not None:
        registration.append(dests[late])
    for d in dests:
        start = 0
        if d.index == late:
            if reg_at[late] is None:
                require(d.offered == [], "unregistered-got-messages", "destination never registered was offered messages")
                continue
            start = reg_at[late]
        want = S[start:]
        if d.oneshot is not None:
            # it removed itself during its call number `oneshot`: offered that message, nothing afterwards
            want = want[: d.oneshot + 1]
        require(
            len(d.offered) == len(want),
            "offered-count",
            lambda: "destination %d was offered %d messages, reference has %d (from index %d)" % (d.index, len(d.offered), len(want), start),
        )
        for k, (a, b) in enumerate(zip(d.offered, want)):
            require(canon_msg(a) == canon_msg(b), "offered-differs", lambda: "destination %d call %d: %s vs reference %s" % (d.index, k, canon_msg(a)[:300], canon_msg(b)[:300]))

    # walk the reference sequence: each message followed by its reports
    i = 0
    n_reports = 0
    n_program = 0
    fail_on_report = 0
    fail_total = 0
    while i < len(S):
        m = S[i]
        require(m.get("message_type") != REPORT, "spurious-report", lambda: "report without a failure at index %d: %s" % (i, canon_msg(m)[:300]))
        n_program += 1
        raisers = []
        for d in registration:
            k = call_index(d, i, late, reg_at)
            if k is not None and k < len(d.raised) and d.raised[k] is not None:
                raisers.append((d, d.raised[k]))
        fail_total += len(raisers)
        for j, (d, e) in enumerate(raisers):
            require(i + 1 + j < len(S), "missing-report", lambda: "failure of destination %d on message %d was not reported" % (d.index, i))
            r = S[i + 1 + j]
            require(
                r.get("message_type") == REPORT,
                "missing-report",
                lambda: "expected a report for destination %d's failure on message %d, got %s" % (d.index, i, canon_msg(r)[:300]),
            )
            require(r.get("exception") == P.exc_name(e), "report-exception", lambda: "report says %r, raised %r" % (r.get("exception"), P.exc_name(e)))
            require(r.get("reason") == P.safe_str(e), "report-reason", lambda: "report reason %r, exception text %r (destination %d)" % (r.get("reason"), P.safe_str(e), d.index))
            text = r.get("message")
            require(
                isinstance(text, str) and repr(m["task_uuid"]) in text and repr(m["task_level"]) in text,
                "report-rendering",
                lambda: "report does not render the affected message (uuid %s level %r): %r" % (m["task_uuid"], m["task_level"], text),
            )
            # failures while delivering the report are not reported: nothing to check, they
            # simply must not add elements (the walk would hit a spurious report)
            for d2 in registration:
                k2 = call_index(d2, i + 1 + j, late, reg_at)
                if k2 is not None and k2 < len(d2.raised) and d2.raised[k2] is not None:
                    fail_on_report += 1
            n_reports += 1
        i += 1 + len(raisers)
    require(
        n_program == count_messages(run.tasks),
        "program-message-count",
        lambda: "program performed %d messages, destinations were offered %d non-report messages" % (count_messages(run.tasks), n_program),
    )
    partial = 0
    for d in dests:
        hits = sum(1 for e in d.raised if e is not None)
        if 0 < hits < len(d.raised):
            partial += 1
    return {
        "dests": len(dests),
        "reports": n_reports,
        "failures": fail_total,
        "fail_on_report": fail_on_report,
        "partial": partial,
        "late": late is not None and reg_at.get(late) is not None,
        "buffered": case.get("buffer_first") is not None and late is None,
        "messages": len(S),
    }


def call_index(d, ref_index, late, reg_at):
    if d.index == late:
        if reg_at[late] is None or ref_index < reg_at[late]:
            return None
        return ref_index - reg_at[late]
    return ref_index


def canon_msg(m):
    return canon(dict((k, v) for k, v in m.items()))


def classify(case, info):
    labels = ["dests=%d" % info["dests"], "reports=%s" % ("0" if not info["reports"] else "1-3" if info["reports"] <= 3 else ">3")]
    if info["fail_on_report"]:
        labels.append("failure-on-report")
    if info["partial"]:
        labels.append("partial-mask")
    if info["late"]:
        labels.append("late-registration")
    if info.get("buffered"):
        labels.append("messages-from-startup-buffer")
    same = len(set(d["exc"] % len(DEST_EXC) for d in case["dests"])) < len(case["dests"])
    if same:
        labels.append("same-exception-class-twice")
    if any(d.get("oneshot") is not None for d in case["dests"]):
        labels.append("a-destination-unregisters-itself-while-called")
    if any(d.get("oneshot") is not None and d.get("oneshot_raises") for d in case["dests"]):
        labels.append("a-destination-unregisters-itself-and-raises")
    if case.get("extractors") and info["reports"]:
        labels.append("extractor-registered-for-a-destination's-exception")
    nontrivial = info["dests"] >= 2 and info["partial"] >= 1 and info["fail_on_report"] >= 1
    return nontrivial, labels


def strategy():
    dest = st.builds(
        lambda mask, exc, every, oneshot, oraises: {"mask": sorted(set(mask)), "exc": exc, "every": every, "oneshot": oneshot, "oneshot_raises": bool(oraises and oneshot is not None)},
        st.lists(st.integers(0, 40), max_size=10),
        st.integers(0, len(DEST_EXC) - 1),
        st.sampled_from([None, None, None, None, 1, 2, 3]),
        st.sampled_from([None, None, None, None, None, 0, 1, 3]),
        st.booleans(),
    )
    return st.builds(
        lambda ex, dests, late, bf, late_at, pos, p: {"program": p, "extractors": ex, "dests": dests, "late": late, "buffer_first": bf, "late_at": late_at, "observer_pos": pos},
        st.one_of(st.just([]), st.just([]), st.lists(st.integers(0, len(DEST_EXC) - 1), min_size=1, max_size=3, unique=True)),
        st.integers(1, 4).flatmap(lambda n: st.lists(dest, min_size=n, max_size=n)),
        st.one_of(st.none(), st.none(), st.integers(0, 3)),
        st.one_of(st.none(), st.integers(0, 4)),
        st.integers(0, 4),
        st.integers(0, 4),
        P.programs(max_nodes=10, max_depth=4, remote=False, kinds=["with", "finish", "run", "task", "typed", "log_call"]),
    )


# -------------------------------------------------------------- concurrent


def check_concurrent(case):
    """Two or three threads log through one Destinations under line-level schedules."""
    import threading
    from .. import sched
    from ..core import HarnessError
    from eliot import _output, log_message
    from eliot._output import Destinations

    saved = Logger._destinations
    with sched.cooperative_locks(_output):
        fresh = Destinations()
    Logger._destinations = fresh
    dests = [RecordingDest(i, d["mask"], d["exc"], d.get("every")) for i, d in enumerate(case["dests"])]
    healthy = RecordingDest(99, [], 0, None)
    fresh.add(*(dests + [healthy]))
    try:
        def worker(tid, count):
            def run():
                for k in range(count):
                    log_message(message_type="c08:m", who="t%d.%d" % (tid, k))

            return run

        s = sched.Scheduler(("eliot/_output.py",), case["plan"], opcodes=bool(case.get("opcodes")))
        s.run([worker(i, c) for i, c in enumerate(case["threads"])])
    finally:
        Logger._destinations = saved
    for wid, e in s.errors.items():
        if isinstance(e, HarnessError):
            raise e
        raise Violation("thread-raised", "thread %d raised %r" % (wid, e))
    require(not any(d.runaway for d in dests), "report-on-report", "a failure while delivering a report was itself reported")
    want = sorted("t%d.%d" % (i, k) for i, c in enumerate(case["threads"]) for k in range(c))
    for d in dests + [healthy]:
        got = sorted(m["who"] for m in d.offered if m.get("message_type") == "c08:m")
        require(got == want, "offered-once", lambda: "destination %d was offered %r, logged %r" % (d.index, got, want))
    # every failure on a non-report message is reported exactly once, naming the message
    reports = [m for m in healthy.offered if m.get("message_type") == REPORT]
    failures = []
    for d in dests:
        for m, e in zip(d.offered, d.raised):
            if e is not None and m.get("message_type") != REPORT:
                failures.append((d.index, m, e))
    by_msg = {}
    for (di, m, e) in failures:
        by_msg.setdefault(m["task_uuid"], []).append((di, m, e))
    for uuid, fl in by_msg.items():
        mine = [r for r in reports if repr(uuid) in str(r.get("message"))]
        require(
            sorted(r.get("reason") for r in mine) == sorted(P.safe_str(e) for _, _, e in fl),
            "failure-report-count",
            lambda: "message %s failed at destinations %r but was reported %d times (reasons %r)" % (fl[0][1].get("who"), [d for d, _, _ in fl], len(mine), [r.get("reason") for r in mine]),
        )
    require(len(reports) == len(failures), "report-count", lambda: "%d failures but %d reports" % (len(failures), len(reports)))
    inside = s.switched_inside(("send", "write"))
    return {"failures": len(failures), "switch_inside": len(inside), "switches": len(s.switches)}


def classify_concurrent(case, info):
    labels = ["threads=%d" % len(case["threads"]), "failures=%d" % min(info["failures"], 4), "switches=%d" % min(info["switches"], 6)]
    if info["switch_inside"]:
        labels.append("preempted-inside-send")
    labels.append("granularity:bytecode" if case.get("opcodes") else "granularity:line")
    return info["switch_inside"] >= 1 and info["failures"] >= 1, labels


def concurrent_strategy():
    from .. import sched

    dest = st.builds(
        lambda mask, exc, every: {"mask": sorted(set(mask)), "exc": exc, "every": every},
        st.lists(st.integers(0, 6), max_size=4),
        st.integers(0, len(DEST_EXC) - 1),
        st.sampled_from([None, None, 1, 2]),
    )
    return st.builds(
        lambda opc, dests, plan, threads: sched.with_granularity({"dests": dests, "plan": plan, "threads": threads}, opc),
        st.sampled_from([False, False, True]),
        st.lists(dest, min_size=1, max_size=2),
        sched.plans(max_segments=10, max_steps=30, workers=3),
        st.lists(st.integers(1, 2), min_size=2, max_size=3),
    )


def concurrent_enum_runner(mod, facet, tier, seed, shard, nshards, stats):
    from ..core import enumerate_cases
    from .. import sched

    cases = []
    for dests in ([{"mask": [], "exc": 0, "every": 1}], [{"mask": [0, 1], "exc": 1, "every": None}], [{"mask": [1], "exc": 0, "every": None}, {"mask": [0], "exc": 0, "every": None}]):
        for plan in sched.single_preemption_plans(2, 70):
            cases.append({"dests": dests, "plan": plan, "threads": [1, 1]})
    stats.extra["enumerated_plans"] = len(cases)
    enumerate_cases(mod, facet, cases, shard, nshards, stats, exhaustive=True)


FACETS = [
    Facet("fanout", strategy, check, classify, quick=2000, thorough=50000),
    Facet("concurrent", concurrent_strategy, check_concurrent, classify_concurrent, quick=200, thorough=10000),
    Facet("concurrent-enum", None, check_concurrent, classify_concurrent, quick=1, thorough=1, runner=concurrent_enum_runner),
]
