"""
Minimal stand-in for the two Twisted names eliot/logwriter.py imports
(Twisted is not installable in this sandbox).  Only used by the C19 check.
"""
