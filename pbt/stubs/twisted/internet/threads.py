import threading


class Deferred(object):
    """The completion handle deferToThreadPool returns."""

    def __init__(self):
        self._event = threading.Event()
        self.called = False
        self.result = None
        self.failure = None

    def _fire(self, result, failure=None):
        self.result = result
        self.failure = failure
        self.called = True
        self._event.set()

    def wait(self, timeout):
        return self._event.wait(timeout)


def deferToThreadPool(reactor, threadpool, f, *args, **kwargs):
    d = Deferred()

    def run():
        try:
            r = f(*args, **kwargs)
        except BaseException as e:  # noqa
            d._fire(None, e)
        else:
            d._fire(r)

    threadpool.callInThread(run)
    return d
