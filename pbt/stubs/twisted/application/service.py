import time


class Service(object):
    """Like twisted.application.service.Service: tracks `running`."""

    running = 0
    name = None
    # the C19 harness may ask for a pause right after the service is marked
    # stopped (a slow base class / a context switch at that call boundary)
    _verif_pause_after_stop = 0.0

    def startService(self):
        self.running = 1

    def stopService(self):
        self.running = 0
        if Service._verif_pause_after_stop:
            time.sleep(Service._verif_pause_after_stop)
