"""
Independent reference reconstruction of task trees from message dicts.

Shares no code with eliot/parse.py or eliot/_action.py: group by task_uuid,
key by tuple(task_level); an action is a level prefix; its children are the
keys one longer, ordered numerically.
"""

META = ("task_uuid", "task_level", "timestamp")


def contents(msg):
    return dict((k, v) for k, v in msg.items() if k not in META)


class Node(object):
    def __init__(self, level):
        self.level = level
        self.start = None
        self.end = None
        self.message = None  # for leaf messages
        self.children = {}  # last component -> Node

    @property
    def is_action(self):
        return self.message is None


def build(messages):
    """@return: dict uuid -> root Node (level ())."""
    tasks = {}
    for m in messages:
        uuid = m["task_uuid"]
        level = tuple(m["task_level"])
        root = tasks.get(uuid)
        if root is None:
            root = tasks[uuid] = Node(())
        is_action = m.get("action_type") is not None
        if not is_action and level == (1,) and root.start is None and root.end is None and not root.children:
            # a context-less message is the whole task
            root.message = m
            continue
        node = root
        for depth in range(1, len(level)):
            comp = level[depth - 1]
            nxt = node.children.get(comp)
            if nxt is None:
                nxt = node.children[comp] = Node(level[:depth])
            node = nxt
        # node is now the action that owns this message
        if is_action:
            if m["action_status"] == "started":
                node.start = m
            else:
                node.end = m
        else:
            leaf = Node(level)
            leaf.message = m
            node.children[level[-1]] = leaf
    return tasks


def plain(node):
    """Order-free comparable structure of a reference node."""
    if node.message is not None:
        return {"m": contents(node.message), "level": list(node.message["task_level"])}
    src = node.start or node.end
    return {
        "a": src.get("action_type") if src else None,
        "status": (node.end or node.start or {}).get("action_status"),
        "start": contents(node.start) if node.start else None,
        "end": contents(node.end) if node.end else None,
        "level": list(node.level),
        "children": [plain(node.children[k]) for k in sorted(node.children)],
    }


def complete(node):
    if node.message is not None:
        return True
    if node.start is None or node.end is None:
        return False
    n = node.end["task_level"][-1]
    if sorted(node.children) != list(range(2, n)):
        return False
    return all(complete(c) for c in node.children.values())


def plain_written(node):
    """The same structure from eliot's WrittenAction / WrittenMessage."""
    from eliot.parse import WrittenAction

    def thaw(x):
        from pyrsistent import thaw as _thaw

        return _thaw(x)

    if not isinstance(node, WrittenAction):
        return {"m": thaw(node.contents), "level": list(node.task_level.as_list())}
    start, end = node.start_message, node.end_message
    return {
        "a": node.action_type,
        "status": node.status,
        "start": thaw(start.contents) if start else None,
        "end": thaw(end.contents) if end else None,
        "level": list(node.task_level.as_list()),
        "children": [plain_written(c) for c in node.children],
    }
