"""
Logging programs: a pure-data AST, a Hypothesis strategy for it, an
interpreter that executes it through eliot's public API, and the reference
model (the forest of actions/messages the program performed), built from the
AST semantics alone - never from task_level.

Node kinds (dicts with "op"):
  action  kind in ACTION_KINDS, atype, sf (start fields), ef (success fields),
          body, typed (None or list of serializer names), extra_finish,
          include_result (log_call)
  msg     kind in MSG_KINDS, mtype, fields, typed
  tb      exc (index), write_traceback() inside an except block
  raise   exc (index)
  try     body
  remote  text (bool), where in ("inline", "thread"), defer (int), body
  preserve where, defer, body
"""

import contextvars
import io
import json
import os
import tempfile
import threading

from hypothesis import strategies as st

from .core import Violation, HarnessError, require, canon, setup_path
from . import values as V

setup_path()
import eliot  # noqa: E402
from eliot import (  # noqa: E402
    start_action,
    start_task,
    log_message,
    log_call,
    current_action,
    Action,
    ActionType,
    MessageType,
    Message,
    Field,
    write_traceback,
    preserve_context,
    Logger,
    MemoryLogger,
    FileDestination,
)
from eliot import _output  # noqa: E402
from eliot._output import Destinations  # noqa: E402
from eliot import _errors as eliot_errors  # noqa: E402

ACTION_KINDS = ["with", "finish", "finish_inside", "run", "typed", "typed_task", "task", "log_call", "gen_close", "gen_next", "gen_throw"]
MSG_KINDS = ["log_message", "action_log", "Message_log", "Message_new", "typed"]

# --------------------------------------------------------------- exceptions


class AppError(Exception):
    pass


class DiamondError(AppError, LookupError):
    pass


def _hostile(exc):
    """Mark an exception raised on purpose by one of the case's own callbacks (not a harness bug if it gets out)."""
    try:
        exc.hostile = True
    except Exception:
        pass
    return exc


class BadStrError(Exception):
    def __str__(self):
        raise _hostile(RuntimeError("str() of this exception raises"))


class AppBase(BaseException):
    pass


class DeepError(DiamondError):
    pass


class EmptyErrors(Exception):
    """A container-like exception that is falsy (no sub-errors)."""

    def __len__(self):
        return 0


class FalsyError(AppError):
    def __bool__(self):
        return False


class BadStrBaseError(Exception):
    """str() of it is interrupted by something that is not an Exception."""

    def __str__(self):
        raise _hostile(AppBase("interrupted while formatting"))


class NoModuleError(Exception):
    """A class whose __module__ is not a string (the traceback module tolerates these)."""


NoModuleError.__module__ = None


class CodedError(AppError):
    def __init__(self, msg):
        AppError.__init__(self, msg)
        self.code = len(msg)


import asyncio  # noqa: E402

class BadDetailsSyntaxError(SyntaxError):
    """A SyntaxError whose details tuple is malformed: the standard library cannot format its traceback."""

    def __init__(self, msg):
        SyntaxError.__init__(self, msg, ("f", 1, "a", "text"))


class SilentBadReprError(Exception):
    """No message (str() is empty), and repr() fails - for the library; the harness's own reports still get a name."""

    def __str__(self):
        return ""

    def __repr__(self):
        import sys as _sys

        caller = _sys._getframe(1).f_code.co_filename
        if os.sep + "eliot" + os.sep in caller and not caller.startswith(os.path.dirname(os.path.abspath(__file__))):
            raise _hostile(RuntimeError("repr() of this exception raises"))
        return "SilentBadReprError()"


EXC_TABLE = [
    ValueError,
    KeyError,
    RuntimeError,
    OSError,
    ZeroDivisionError,
    AppError,
    DiamondError,
    BadStrError,
    DeepError,
    CodedError,
    KeyboardInterrupt,
    SystemExit,
    GeneratorExit,
    asyncio.CancelledError,
    AppBase,
    FileNotFoundError,
    EmptyErrors,
    FalsyError,
    BadStrBaseError,
    NoModuleError,
    BadDetailsSyntaxError,
    SilentBadReprError,
]
BASE_ONLY = set(i for i, c in enumerate(EXC_TABLE) if not issubclass(c, Exception))


def make_exc(index, n):
    cls = EXC_TABLE[index % len(EXC_TABLE)]
    if issubclass(cls, OSError):
        return cls(n % 7 + 1, "boom-%d" % n)
    return cls("boom-%d" % n)


def exc_name(e):
    return "%s.%s" % (type(e).__module__, type(e).__name__)


def safe_str(e):
    try:
        return str(e)
    except BaseException:
        return "eliot: unknown, str() raised exception"


# -------------------------------------------------------------- serializers

SERIALIZERS = {
    "id": lambda v: v,
    "str": lambda v: str(v),
    "wrap": lambda v: [v],
    "typename": lambda v: type(v).__name__,
}
SER_NAMES = sorted(SERIALIZERS)


class Abort(BaseException):
    """An eliot API call raised unexpectedly; the program run is abandoned."""


class Run(object):
    def __init__(self):
        self.messages = []  # dicts seen by the observer, in emission order
        self.tasks = []  # model forest (roots in creation order)
        self.errors = []  # unexpected exceptions from API calls
        self.stats = {}
        self.lines = None
        self.raw = None
        self.memory_logger = None
        self.context_errors = []
        self.side_logs = []  # message lists written by forked children to their own files


class Ctx(object):
    """Per-thread interpreter state: the model's idea of the action stack."""

    def __init__(self, stack=None):
        self.stack = list(stack or [])


class Interp(object):
    def __init__(self, run, opts):
        self.run = run
        self.opts = opts
        self.n = 0
        self.raised = {}  # id -> exception objects raised by the program
        self.lock = threading.Lock()
        # model of the extractor registry
        self.extractors = {}
        self.late = []
        self.slots = {}
        self.finalizers = {}
        self.check_context = opts.get("check_context", True)

    # -- helpers ---------------------------------------------------------
    def next_n(self):
        with self.lock:
            self.n += 1
            return self.n

    def stat(self, key):
        self.run.stats[key] = self.run.stats.get(key, 0) + 1

    def api(self, kind, fn, /, *a, **kw):
        try:
            result = fn(*a, **kw)
            after = self.opts.get("after_api")
            if after is not None:
                after(kind)
            return result
        except (Abort, HarnessError):
            raise
        except BaseException as e:
            if id(e) in self.raised and self.raised[id(e)] is e:
                raise
            if getattr(e, "injected", False):
                # a fault injected by the case (e.g. a raising custom logger):
                # from here on it is an exception travelling through the program
                self.raised[id(e)] = e
                self.stat("injected-fault-raised")
                raise
            import traceback as tbm

            frames = tbm.extract_tb(e.__traceback__)
            if frames and (os.sep + "pbt" + os.sep) in frames[-1].filename and not getattr(e, "hostile", False):
                raise HarnessError("harness bug inside API call %s: %s" % (kind, "".join(tbm.format_exception(type(e), e, e.__traceback__))))
            inner = [f for f in frames if os.sep + "eliot" + os.sep in f.filename]
            where = "%s:%s" % (os.path.basename(inner[-1].filename), inner[-1].name) if inner else "?"
            self.run.errors.append({"call": kind, "exception": "%s: %s" % (type(e).__name__, safe_str(e)[:300]), "where": where})
            raise Abort()

    def attach(self, ctx, node):
        if ctx.stack:
            ctx.stack[-1]["children"].append(node)
        else:
            self.run.tasks.append(node)

    def expect_current(self, ctx, where):
        if not self.check_context:
            return
        want = ctx.stack[-1].get("obj") if ctx.stack else None
        got = current_action()
        if got is not want:
            self.run.context_errors.append(
                "%s: current_action() is %r, model expects %r" % (where, _act_desc(got), _act_desc(want))
            )

    def ser_fields(self, fields, typed):
        """Expected delivered value of each field (after the declared serializer)."""
        out = {}
        names = sorted(fields)
        for i, k in enumerate(names):
            spec = fields[k]
            if typed and self.opts.get("serialize", True):
                ser = SERIALIZERS[typed[i % len(typed)]]
                out[k] = {"$expected_py": ser(V.decode(spec))}
            else:
                out[k] = spec
        return out

    def declared(self, fields, typed, extra=("n",)):
        names = sorted(fields)
        decl = [Field(k, self._wrap_ser(typed[i % len(typed)], k), "") for i, k in enumerate(names)]
        for k in extra:
            decl.append(Field(k, lambda v: v, ""))
        return decl

    def _wrap_ser(self, name, key):
        hook = self.opts.get("serializer_hook")
        fn = SERIALIZERS[name]
        if hook is None:
            return fn
        return lambda v: hook(name, key, fn, v)

    # -- execution -------------------------------------------------------
    def exec_nodes(self, nodes, ctx):
        pending = []  # deferred continuations: [countdown, callable]
        try:
            for node in nodes:
                self.exec_node(node, ctx, pending)
                for p in list(pending):
                    p[0] -= 1
                    if p[0] < 0:
                        pending.remove(p)
                        p[1]()
        finally:
            # structured: every continuation runs before the enclosing block ends
            while pending:
                p = pending.pop(0)
                p[1]()
            for fin in self.finalizers.pop(id(pending), []):
                fin()

    def exec_node(self, node, ctx, pending):
        op = node["op"]
        getattr(self, "op_" + op)(node, ctx, pending)

    def op_msg(self, node, ctx, pending):
        n = self.next_n()
        kind = node["kind"]
        typed = node.get("typed")
        fields = dict(node["fields"])
        mtype = node["mtype"]
        model = {"kind": "msg", "type": mtype, "fields": dict(self.ser_fields(fields, typed if kind == "typed" else None), n=n), "n": n}
        self.attach(ctx, model)
        self.stat("msg:" + kind)
        py = dict((k, V.decode(v)) for k, v in fields.items())
        py["n"] = n
        self.expect_current(ctx, "before message %d" % n)
        if kind == "log_message":
            self.api("log_message", log_message, message_type=mtype, **py)
        elif kind == "action_log":
            act = current_action()
            if act is None:
                self.api("log_message", log_message, message_type=mtype, **py)
            else:
                self.api("Action.log", act.log, message_type=mtype, **py)
        elif kind == "Message_log":
            self.api("Message.log", Message.log, message_type=mtype, **py)
        elif kind == "Message_new":
            msg = self.api("Message.new", Message.new, message_type=mtype, **py)
            self.api("Message.write", msg.write)
        elif kind == "typed":
            mt = MessageType(mtype, self.declared(fields, typed), "")
            self.api("MessageType.log", mt.log, **py)
        else:
            raise ValueError(kind)

    def op_tb(self, node, ctx, pending):
        if node.get("outside"):
            # nothing to log: what is written is unspecified, but the call must not raise
            self.stat("traceback-without-exception")
            self.api("write_traceback", write_traceback, exc_info=(None, None, None))
            return
        n = self.next_n()
        handling = getattr(self, "handling", None)
        if node.get("current") and handling:
            # write_traceback() of the exception this except block is handling: the same instance that has just
            # failed the actions it propagated through
            e = handling[-1]
            self.stat("traceback-of-handled-exception")
            xf, tbs = self.extractor_fields(e)
            tb_fields = dict(reason=safe_str(e), exception=exc_name(e))
            for k, v in xf.items():
                tb_fields[k] = safe_str(v) if k == "reason" else v
            for t in tbs:
                self.attach(ctx, t)
            self.attach(ctx, {"kind": "msg", "type": "eliot:traceback", "tb": True, "fields": tb_fields, "n": n, "exc_obj": e})
            self.stat("traceback")
            self.api("write_traceback", write_traceback)
            return
        e = make_exc(node["exc"], n)
        xf, tbs = self.extractor_fields(e)
        tb_fields = dict(reason=safe_str(e), exception=exc_name(e))
        for k, v in xf.items():
            tb_fields[k] = safe_str(v) if k == "reason" else v
        model = {
            "kind": "msg",
            "type": "eliot:traceback",
            "tb": True,
            "fields": tb_fields,
            "n": n,
            "exc_obj": e,
        }
        for t in tbs:
            self.attach(ctx, t)
        self.attach(ctx, model)
        self.stat("traceback")
        try:
            raise e
        except BaseException:
            self.api("write_traceback", write_traceback)

    def op_raise(self, node, ctx, pending):
        n = self.next_n()
        e = make_exc(node["exc"], n)
        self.raised[id(e)] = e
        self.stat("raise")
        raise e

    def op_try(self, node, ctx, pending):
        depth = len(ctx.stack)
        try:
            try:
                self.exec_nodes(node["body"], ctx)
            finally:
                if node.get("final"):
                    # clean-up code that runs while an exception may be unwinding
                    del ctx.stack[depth:]
                    self.stat("finally-block")
                    self.exec_nodes(node["final"], ctx)
        except (Abort, HarnessError):
            raise
        except BaseException as e:
            if self.raised.get(id(e)) is not e:
                self.run.errors.append({"call": "try", "exception": "caught foreign exception %r" % (e,), "where": "?"})
                raise Abort()
            self.stat("caught")
            self.stat("caught:" + type(e).__name__)
            del ctx.stack[depth:]
            if node.get("handler"):
                # recovery code inside the except block: another exception is being handled meanwhile
                self.stat("except-handler-body")
                if not hasattr(self, "handling"):
                    self.handling = []
                self.handling.append(e)
                try:
                    self.exec_nodes(node["handler"], ctx)
                finally:
                    self.handling.pop()
        del ctx.stack[depth:]
        self.expect_current(ctx, "after try")

    def extractor_fields(self, e, _nested=False):
        """Model of the registry: nearest class in the MRO; -> (fields, [tb models])."""
        for klass in type(e).__mro__:
            if klass in self.extractors:
                beh = self.extractors[klass]
                if callable(beh):
                    try:
                        return dict(beh(e)), []
                    except Exception:
                        return {}, []
                if "fields" in beh:
                    return dict(beh["fields"]), []
                # the extractor raises X: one traceback for X is logged,
                # unless we are already reporting an extractor failure
                if _nested:
                    return {}, []
                if beh.get("none"):
                    # the extractor returns None instead of a dict: a failing extractor like any other
                    x = _none_is_not_a_dict()
                else:
                    x = make_exc(beh["raise"], 0)
                xf, _ = self.extractor_fields(x, _nested=True)
                tbf = dict(reason=safe_str(x), exception=exc_name(x))
                for k, v in xf.items():
                    tbf[k] = safe_str(v) if k == "reason" else v
                tb = {
                    "kind": "msg",
                    "type": "eliot:traceback",
                    "tb": True,
                    "fields": tbf,
                    "n": None,
                }
                self.stat("extractor-raised")
                return {}, [tb]
        return {}, []

    def _fail(self, model, e, ctx=None):
        model["status"] = "failed"
        model["exception"] = exc_name(e)
        model["reason"] = safe_str(e)
        fields, tbs = self.extractor_fields(e)
        # eliot sets these itself after the extractor ran: the truthful values win
        model["end"] = dict((k, v) for k, v in fields.items() if k not in ("exception", "reason", "action_status"))
        model["exc_obj"] = e
        for tb in tbs:
            # logged while finishing: inside the action itself when it is
            # finished inside its own context, else in the enclosing context
            if model.get("akind") == "finish_inside":
                model["children"].append(tb)
            elif ctx is not None:
                self.attach(ctx, tb)
            else:
                self.run.tasks.append(tb)

    def op_action(self, node, ctx, pending):
        before = current_action()
        try:
            self._op_action(node, ctx, pending)
        except (Abort, HarnessError):
            raise
        except BaseException:
            if self.check_context and current_action() is not before:
                self.run.context_errors.append(
                    "an exception left action kind %s but current_action() is %r, was %r before entry"
                    % (node["kind"], _act_desc(current_action()), _act_desc(before))
                )
            raise

    def _op_action(self, node, ctx, pending):
        n = self.next_n()
        kind = node["kind"]
        typed = node.get("typed") if kind in ("typed", "typed_task") else None
        atype = node["atype"]
        sf, ef = node["sf"], node["ef"]
        new_tree = kind in ("task", "typed_task")
        model = {
            "kind": "action",
            "type": atype,
            "start": dict(self.ser_fields(sf, typed), n=n),
            "end": None,
            "status": None,
            "children": [],
            "n": n,
            "akind": kind,
        }
        if new_tree:
            self.run.tasks.append(model)
        else:
            self.attach(ctx, model)
        self.stat("action:" + kind)
        py_sf = dict((k, V.decode(v)) for k, v in sf.items())
        py_ef = dict((k, V.decode(v)) for k, v in ef.items())
        self.expect_current(ctx, "before action %d" % n)
        before = current_action()

        if kind == "log_call":
            self._log_call(node, ctx, model, n, py_sf, py_ef)
            self._after(node, ctx, model, before, None)
            return

        if kind in ("gen_close", "gen_next", "gen_throw"):
            self._gen_action(node, ctx, model, n, py_sf, py_ef, before)
            return

        custom_logger = self.opts.get("logger")
        if kind in ("typed", "typed_task"):
            at = ActionType(atype, self.declared(sf, typed), self.declared(ef, typed, extra=()), "")
            starter = at.as_task if kind == "typed_task" else at
            action = self.api("ActionType()", starter, custom_logger, n=n, **py_sf)
        elif kind == "task":
            action = self.api("start_task", start_task, custom_logger, action_type=atype, n=n, **py_sf)
        else:
            action = self.api("start_action", start_action, custom_logger, action_type=atype, n=n, **py_sf)
        model["obj"] = action
        model["end_expected"] = self.ser_fields(ef, typed)

        def body():
            ctx.stack.append(model)
            try:
                self.expect_current(ctx, "inside action %d" % n)
                if py_ef:
                    self.api("add_success_fields", action.add_success_fields, **py_ef)
                if node.get("early_finish") and self.opts.get("allow_early_finish"):
                    self.stat("early-finish")
                    if node["early_finish"] == 1:
                        self.api("finish()", action.finish)
                    else:
                        self.api("finish(exc)", action.finish, ValueError("early"))
                self.exec_nodes(node["body"], ctx)
                self.expect_current(ctx, "end of body of action %d" % n)
            finally:
                ctx.stack.pop()

        exc = None
        if kind in ("with", "typed", "typed_task", "task"):
            self.api("__enter__", action.__enter__)
            try:
                body()
            except (Abort, HarnessError):
                raise
            except BaseException as e:
                exc = e
                suppress = self.api("__exit__", action.__exit__, type(e), e, e.__traceback__)
                if suppress:
                    self.run.errors.append({"call": "__exit__", "exception": "returned true value: exception swallowed", "where": "_action.py:__exit__"})
                    raise Abort()
            else:
                self.api("__exit__", action.__exit__, None, None, None)
        elif kind == "finish":
            cm = self.api("context()", action.context)
            self.api("context.__enter__", cm.__enter__)
            try:
                body()
            except (Abort, HarnessError):
                raise
            except BaseException as e:
                exc = e
                self._exit_cm(cm, e)
                self.api("finish(exc)", action.finish, e)
            else:
                self._exit_cm(cm, None)
                self._finish_ok(action)
        elif kind == "finish_inside":
            cm = self.api("context()", action.context)
            self.api("context.__enter__", cm.__enter__)
            try:
                body()
            except (Abort, HarnessError):
                raise
            except BaseException as e:
                exc = e
                try:
                    self.api("finish(exc)", action.finish, e)
                finally:
                    self._exit_cm(cm, e)
            else:
                try:
                    self.api("finish()", action.finish)
                except BaseException as e2:
                    self._exit_cm(cm, e2)
                    raise
                self._exit_cm(cm, None)
        elif kind == "run":
            try:
                self.api("run", action.run, body)
            except (Abort, HarnessError):
                raise
            except BaseException as e:
                exc = e
                self.api("finish(exc)", action.finish, e)
            else:
                self._finish_ok(action)
        else:
            raise ValueError(kind)
        self._after(node, ctx, model, before, action, exc)
        if exc is not None:
            raise exc

    def _gen_action(self, node, ctx, model, n, py_sf, py_ef, before):
        """
        A plain (undecorated) generator holding `with start_action(...)`
        across a yield; the body runs while it is suspended, then it is
        closed, thrown into, or resumed to completion (LIFO).
        """
        kind = node["kind"]
        atype = node["atype"]
        box = {}
        custom_logger = self.opts.get("logger")

        def genfn():
            with start_action(custom_logger, action_type=atype, n=n, **py_sf) as action:
                box["action"] = action
                if py_ef:
                    action.add_success_fields(**py_ef)
                yield 1

        it = genfn()
        self.api("next(gen)", next, it)
        model["obj"] = box["action"]
        model["end_expected"] = self.ser_fields(node["ef"], None)
        ctx.stack.append(model)
        exc = None
        try:
            try:
                self.expect_current(ctx, "inside generator action %d" % n)
                self.exec_nodes(node["body"], ctx)
            finally:
                ctx.stack.pop()
        except (Abort, HarnessError):
            raise
        except BaseException as e:
            exc = e
            self._throw_into(it, e)
        else:
            if kind == "gen_close":
                self.api("gen.close()", it.close)
                self._fail(model, GeneratorExit(), ctx)
            elif kind == "gen_next":
                self.api("next(gen)", lambda: next(it, None))
            else:
                e = make_exc(node.get("exc", 0), self.next_n())
                self.raised[id(e)] = e
                exc = e
                self._throw_into(it, e)
        self._after(node, ctx, model, before, None, exc)
        if exc is not None:
            raise exc

    def _throw_into(self, it, e):
        try:
            it.throw(e)
        except (Abort, HarnessError):
            raise
        except BaseException as e2:
            if e2 is not e:
                if getattr(e2, "injected", False):
                    self.raised[id(e2)] = e2
                    raise
                self.run.errors.append({"call": "gen.throw", "exception": "a different exception came out: %r" % (e2,), "where": "_action.py:__exit__"})
                raise Abort()
        else:
            self.run.errors.append({"call": "gen.throw", "exception": "exception swallowed by the with block", "where": "_action.py:__exit__"})
            raise Abort()

    def op_reseed(self, node, ctx, pending):
        """The application re-seeds the global PRNG (task identity must not depend on it)."""
        import random

        random.seed(node["seed"])
        self.stat("reseed")

    def op_create(self, node, ctx, pending):
        """Start an action now (child of the current action) without entering it; see op_enter."""
        n = self.next_n()
        model = {
            "kind": "action",
            "type": node["atype"],
            "start": dict(self.ser_fields(node["sf"], None), n=n),
            "end": None,
            "status": None,
            "children": [],
            "n": n,
            "akind": "created",
        }
        self.attach(ctx, model)
        py_sf = dict((k, V.decode(v)) for k, v in node["sf"].items())
        self.expect_current(ctx, "before creating action %d" % n)
        action = self.api("start_action", start_action, action_type=node["atype"], n=n, **py_sf)
        self.expect_current(ctx, "after creating action %d (not entered)" % n)
        model["obj"] = action
        self.slots[node["slot"] % 3] = model
        self.stat("action:created-for-later")

        def finalize():
            # structured: whoever created it finishes it if nobody entered it
            if model["status"] is None:
                self.api("finish()", action.finish)
                model["status"] = "succeeded"
                model["end"] = {}
                self.stat("created-never-entered")

        self.finalizers.setdefault(id(pending), []).append(finalize)

    def op_enter(self, node, ctx, pending):
        """`with action:` on an action created earlier, possibly under a different current action."""
        model = self.slots.get(node["slot"] % 3)
        if model is None or model["status"] is not None or model.get("entered"):
            self.stat("enter-skipped")
            return
        model["entered"] = True
        action = model["obj"]
        before = current_action()
        if ctx.stack and ctx.stack[-1] is not model and before is not None:
            self.stat("entered-under-different-action")
        self.api("__enter__", action.__enter__)
        ctx.stack.append(model)
        exc = None
        try:
            try:
                self.expect_current(ctx, "inside entered action %d" % model["n"])
                self.exec_nodes(node["body"], ctx)
            finally:
                ctx.stack.pop()
        except (Abort, HarnessError):
            raise
        except BaseException as e:
            exc = e
            suppress = self.api("__exit__", action.__exit__, type(e), e, e.__traceback__)
            if suppress:
                self.run.errors.append({"call": "__exit__", "exception": "returned true value: exception swallowed", "where": "_action.py:__exit__"})
                raise Abort()
            self._fail(model, e, ctx)
        else:
            self.api("__exit__", action.__exit__, None, None, None)
            model["status"] = "succeeded"
            model["end"] = {}
        if self.check_context and current_action() is not before:
            self.run.context_errors.append(
                "after leaving action %d (created earlier, entered later): current_action() is %r, was %r before entry"
                % (model["n"], _act_desc(current_action()), _act_desc(before))
            )
        if exc is not None:
            raise exc

    def op_hook(self, node, ctx, pending):
        """Harness hook: run a case-supplied callback between two nodes."""
        fn = self.opts.get("hooks", {}).get(node["name"])
        if fn is not None:
            self.stat("hook:" + node["name"])
            fn(self.run, node)

    def op_reenter(self, node, ctx, pending):
        """Re-enter the context of an action already on the stack."""
        if not ctx.stack:
            self.stat("reenter-skipped")
            return
        target = ctx.stack[-1 - (node.get("up", 0) % len(ctx.stack))]
        action = target.get("obj")
        if action is None:
            self.stat("reenter-skipped")
            return
        self.stat("reenter:" + node["how"])
        if target is not ctx.stack[-1]:
            self.stat("reenter-ancestor")
        before = current_action()

        def body():
            ctx.stack.append(target)
            try:
                self.expect_current(ctx, "inside re-entered context")
                self.exec_nodes(node["body"], ctx)
            finally:
                ctx.stack.pop()

        exc = None
        if node["how"] == "run":
            try:
                self.api("run", action.run, body)
            except (Abort, HarnessError):
                raise
            except BaseException as e:
                exc = e
        else:
            cm = self.api("context()", action.context)
            self.api("context.__enter__", cm.__enter__)
            try:
                body()
            except (Abort, HarnessError):
                raise
            except BaseException as e:
                exc = e
                self._exit_cm(cm, e)
            else:
                self._exit_cm(cm, None)
        if self.check_context and current_action() is not before:
            self.run.context_errors.append(
                "after re-entering %s via %s: current_action() is %r, was %r"
                % (_act_desc(action), node["how"], _act_desc(current_action()), _act_desc(before))
            )
        if exc is not None:
            raise exc

    def _finish_ok(self, action):
        """action.finish(), optionally with the defensive idiom `except BaseException as e: action.finish(e); raise`."""
        if not self.opts.get("defensive_finish"):
            self.api("finish()", action.finish)
            return
        try:
            self.api("finish()", action.finish)
        except (Abort, HarnessError):
            raise
        except BaseException as e:
            self.stat("defensive-second-finish")
            self.api("finish(exc) again", action.finish, e)
            raise

    def _exit_cm(self, cm, e):
        if e is None:
            self.api("context.__exit__", cm.__exit__, None, None, None)
        else:
            # contextlib re-raises the exception thrown into the generator
            try:
                r = cm.__exit__(type(e), e, e.__traceback__)
            except BaseException as e2:
                if e2 is not e:
                    self.run.errors.append({"call": "context.__exit__", "exception": repr(e2), "where": "_action.py:context"})
                    raise Abort()
            else:
                if r:
                    self.run.errors.append({"call": "context.__exit__", "exception": "swallowed the exception", "where": "_action.py:context"})
                    raise Abort()

    def _after(self, node, ctx, model, before, action, exc=None):
        if exc is None and model["status"] is None:
            model["status"] = "succeeded"
            model["end"] = model.pop("end_expected", {})
        elif exc is not None:
            self._fail(model, exc, ctx)
        if self.check_context and current_action() is not before:
            self.run.context_errors.append(
                "after action %d (%s): current_action() is %r, was %r before entry"
                % (model["n"], model["akind"], _act_desc(current_action()), _act_desc(before))
            )
        if action is not None:
            for i in range(node.get("extra_finish", 0)):
                if i % 2:
                    self.api("finish-again(exc)", action.finish, ValueError("again"))
                else:
                    self.api("finish-again()", action.finish)

    def _log_call(self, node, ctx, model, n, py_sf, py_ef):
        names = sorted(py_sf)
        params = ["p%d" % i for i in range(len(names))]
        include_result = node.get("include_result", True)
        atype = node["atype"]
        interp = self
        result = dict(py_ef)
        state = {}

        def _body():
            # inside the decorated function: the log_call action is current
            act = current_action()
            model["obj"] = act
            state["ran"] = True
            ctx.stack.append(model)
            try:
                interp.exec_nodes(node["body"], ctx)
            finally:
                ctx.stack.pop()
            return result

        src = "def fn(n%s):\n    return _body()\n" % "".join(", " + p for p in params)
        glob = {"_body": _body, "__name__": "genmod"}
        exec(src, glob)
        fn = glob["fn"]
        if node.get("default_type"):
            deco = log_call(include_result=include_result)
            model["type"] = "genmod.fn"
        else:
            deco = log_call(action_type=atype, include_result=include_result)
        wrapped = self.api("log_call", deco, fn)
        model["start"] = dict(("p%d" % i, node["sf"][k]) for i, k in enumerate(names))
        model["start"]["n"] = n
        args = [py_sf[k] for k in names]
        try:
            got = self.api("log_call()", wrapped, n, *args)
        except (Abort, HarnessError):
            raise
        except BaseException as e:
            self._fail(model, e, ctx)
            raise
        if got is not result:
            self.run.errors.append({"call": "log_call()", "exception": "return value altered", "where": "_action.py:log_call"})
            raise Abort()
        model["status"] = "succeeded"
        model["end"] = {"result": node["ef"]} if include_result else {}

    # remote sub-tasks ---------------------------------------------------
    def op_remote(self, node, ctx, pending):
        if not ctx.stack:
            self.stat("remote-skipped-no-action")
            return
        n = self.next_n()
        parent = current_action()
        tid = self.api("serialize_task_id", parent.serialize_task_id)
        self.run.stats.setdefault("task_ids", []).append(tid.decode("ascii"))
        if node.get("text"):
            tid = tid.decode("ascii")
        model = {
            "kind": "action",
            "type": "eliot:remote_task",
            "start": {"n": n},
            "end": None,
            "status": None,
            "children": [],
            "n": n,
            "akind": "remote",
            "remote": True,
        }
        self.attach(ctx, model)
        self.stat("remote")
        self.stat("remote:" + node["where"])

        def cont(cctx):
            action = self.api("continue_task", Action.continue_task, task_id=tid, n=n)
            model["obj"] = action
            self._run_with(action, node["body"], cctx, model)

        self._schedule(dict(node, _model=model), ctx, pending, cont)

    def _run_with(self, action, body, cctx, model):
        """`with action: body`, swallowing (and recording) what the body raises."""
        before = current_action()
        self.api("__enter__", action.__enter__)
        cctx.stack.append(model)
        try:
            try:
                self.exec_nodes(body, cctx)
            finally:
                cctx.stack.pop()
        except (Abort, HarnessError):
            raise
        except BaseException as e:
            self.api("__exit__", action.__exit__, type(e), e, e.__traceback__)
            self._fail(model, e, cctx)
        else:
            self.api("__exit__", action.__exit__, None, None, None)
            model["status"] = "succeeded"
            model["end"] = {}
        if self.check_context and current_action() is not before:
            self.run.context_errors.append("after remote action: context not restored")

    def _in_child_process(self, cont, model):
        """
        Run the continuation in a forked child that logs to its own file; the
        child ships back its part of the model (as plain data), the messages
        it wrote and its counters.
        """
        import pickle

        tmp = tempfile.NamedTemporaryFile(prefix="child-", suffix=".log", delete=False)
        tmp.close()
        r, w = os.pipe()
        pid = os.fork()
        if pid == 0:
            code = 0
            try:
                os.close(r)
                fresh = Destinations()
                Logger._destinations = fresh
                f = open(tmp.name, "ab")
                fresh.add(FileDestination(file=f))
                tasks_before = len(self.run.tasks)
                side_before = len(self.run.side_logs)
                # an Action object cannot be shared with another process: actions the parent created for later
                # are not entered here (the parent still owns and finishes them)
                self.slots = {}
                try:
                    cont(Ctx())
                except Abort:
                    pass
                f.close()
                payload = {
                    "model": _strip_model(model),
                    "new_tasks": [_strip_model(t) for t in self.run.tasks[tasks_before:]],
                    "errors": self.run.errors,
                    "context_errors": self.run.context_errors,
                    "n": self.n,
                    "stats": dict((k, v) for k, v in self.run.stats.items() if k != "task_ids"),
                    "task_ids": self.run.stats.get("task_ids", []),
                    "side_logs": self.run.side_logs[side_before:],
                }
                with os.fdopen(w, "wb") as out:
                    pickle.dump(payload, out)
            except BaseException:
                import traceback

                traceback.print_exc()
                code = 3
            finally:
                os._exit(code)
        os.close(w)
        with os.fdopen(r, "rb") as inp:
            data = inp.read()
        _, status = os.waitpid(pid, 0)
        try:
            if status != 0 or not data:
                raise HarnessError("child process of a remote hop failed (status %r)" % (status,))
            payload = pickle.loads(data)
            with open(tmp.name, "rb") as f:
                lines = [l for l in f.read().split(b"\n") if l]
        finally:
            os.unlink(tmp.name)
        # splice the child's results into this run
        model.clear()
        model.update(payload["model"])
        self.run.tasks.extend(payload["new_tasks"])
        self.run.errors.extend(payload["errors"])
        self.run.context_errors.extend(payload["context_errors"])
        self.n = payload["n"]
        self.run.stats["task_ids"] = payload["task_ids"]
        for k, v in payload["stats"].items():
            self.run.stats[k] = v
        self.run.side_logs.extend(payload["side_logs"])
        self.run.side_logs.append([json.loads(l.decode("utf-8")) for l in lines])
        self.stat("remote:process-hop")

    def _schedule(self, node, ctx, pending, cont):
        where = node["where"]
        if where == "process" and self.opts.get("allow_fork") and threading.current_thread() is threading.main_thread():
            model_holder = node["_model"]

            def later():
                self._in_child_process(cont, model_holder)

        elif where == "thread" or where == "process":
            def later():
                box = []

                def target():
                    try:
                        if self.check_context and current_action() is not None:
                            self.run.context_errors.append("new thread starts with a current action")
                        cont(Ctx())
                    except BaseException as e:  # Abort or harness bug
                        box.append(e)

                t = threading.Thread(target=target)
                t.start()
                t.join()
                if box:
                    raise box[0]
        else:
            def later():
                cont(ctx)

        defer = node.get("defer", 0)
        if node.get("late") and self.opts.get("allow_late") and where != "process":
            # unstructured: the continuation runs after the whole program
            self.stat("late-continuation")
            self.late.append(later)
        elif defer <= 0:
            later()
        else:
            self.stat("deferred-continuation")
            pending.append([defer, later])

    def op_preserve(self, node, ctx, pending):
        n = self.next_n()
        has_action = bool(ctx.stack)
        interp = self
        state = {"calls": 0}
        if has_action:
            model = {
                "kind": "action",
                "type": "eliot:remote_task",
                "start": {},
                "end": None,
                "status": None,
                "children": [],
                "n": n,
                "akind": "preserve",
                "remote": True,
            }
            self.attach(ctx, model)
        else:
            model = None
        self.stat("preserve" if has_action else "preserve-no-action")
        holder = {}

        def fn():
            state["calls"] += 1
            cctx = holder["ctx"]
            if model is not None:
                model["obj"] = current_action()
                cctx.stack.append(model)
            try:
                interp.exec_nodes(node["body"], cctx)
            finally:
                if model is not None:
                    cctx.stack.pop()
            return state

        wrapped = self.api("preserve_context", preserve_context, fn)
        if not has_action and wrapped is not fn:
            self.run.errors.append({"call": "preserve_context", "exception": "did not return the function itself with no current action", "where": "_action.py:preserve_context"})
            raise Abort()

        def cont(cctx):
            holder["ctx"] = cctx
            before = current_action()
            try:
                got = self.api("preserved()", wrapped)
            except (Abort, HarnessError):
                raise
            except BaseException as e:
                if model is not None:
                    self._fail(model, e, cctx)
            else:
                if got is not state:
                    self.run.errors.append({"call": "preserved()", "exception": "result altered", "where": "_action.py:preserve_context"})
                    raise Abort()
                if model is not None:
                    model["status"] = "succeeded"
                    model["end"] = {}
            if self.check_context and current_action() is not before:
                self.run.context_errors.append("after preserved call: context not restored")
            # a second call must raise TooManyCalls (only when wrapped)
            if has_action and node.get("call_again"):
                from eliot._action import TooManyCalls

                try:
                    wrapped()
                except TooManyCalls:
                    pass
                except BaseException as e:
                    self.run.errors.append({"call": "preserved() again", "exception": repr(e), "where": "_action.py:preserve_context"})
                    raise Abort()
                else:
                    self.run.errors.append({"call": "preserved() again", "exception": "second call did not raise TooManyCalls", "where": "_action.py:preserve_context"})
                    raise Abort()

        self._schedule(node, ctx, pending, cont)


def _strip_model(node):
    """A picklable copy of a model node (no live objects)."""
    out = dict((k, v) for k, v in node.items() if k not in ("obj", "exc_obj", "children"))
    if "children" in node:
        out["children"] = [_strip_model(c) for c in node["children"]]
    return out


def _extractor_function(beh):
    if callable(beh):
        return beh
    if "fields" in beh:
        if beh.get("persistent"):
            # like `lambda e: e.details`: the very same dict object every time it is asked about one exception
            store = {}

            def persistent(e):
                return store.setdefault(id(e), (e, dict(beh["fields"])))[1]

            return persistent
        return lambda e: dict(beh["fields"])

    if beh.get("none"):
        # forgot the return statement on one branch
        return lambda e: None

    if beh.get("lazy"):
        # written as a generator of pairs that fails part way through
        def lazy(e):
            yield "x", 1
            raise _hostile(make_exc(beh["raise"], 0))

        return lazy

    def raising(e):
        raise _hostile(make_exc(beh["raise"], 0))

    return raising


def _none_is_not_a_dict():
    try:
        dict(None)
    except TypeError as e:
        return e


class InjectedFault(Exception):
    """Raised by fault-injecting loggers / destinations of a case."""

    injected = True


class RaisingLogger(object):
    """An ILogger whose write() raises on the given (0-based) call indices."""

    def __init__(self, mask):
        self.mask = set(mask)
        self.calls = 0
        self.messages = []

    def write(self, dictionary, serializer=None):
        k = self.calls
        self.calls += 1
        if k in self.mask:
            raise InjectedFault("logger.write call %d fails" % k)
        self.messages.append(dict(dictionary))


def _act_desc(a):
    if a is None:
        return None
    try:
        return "%s@%s" % (a._identification.get("action_type"), a._task_level.as_list())
    except Exception:
        return repr(a)


# ------------------------------------------------------------------ running


class Observer(object):
    def __init__(self):
        self.messages = []

    def __call__(self, message):
        self.messages.append(dict(message))


def run_program(program, sink="memory", opts=None, destinations=None, before=None):
    """
    Execute `program` against the real eliot.

    sink: "memory" (list destination), "file-b"/"file-t" (FileDestination on a
    real temp file, read back and json-decoded), "memorylogger" (default logger
    swapped for a MemoryLogger).
    destinations: optional callable(observer) -> list of destinations to
    register (in that order) instead of [observer].
    """
    opts = dict(opts or {})
    run = Run()
    interp = Interp(run, opts)
    saved_dest = Logger._destinations
    saved_logger = _output._DEFAULT_LOGGER
    saved_registry = dict(eliot_errors._error_extraction.registry)
    fresh = Destinations()
    Logger._destinations = fresh
    observer = Observer()
    tmp = None
    fobj = None
    try:
        interp.extractors = dict(eliot_errors._error_extraction.registry)
        for klass, beh in (opts.get("extractors") or {}).items():
            eliot_errors._error_extraction.registry[klass] = _extractor_function(beh)
            interp.extractors[klass] = beh
        if sink == "memorylogger":
            ml = MemoryLogger()
            run.memory_logger = ml
            _output._DEFAULT_LOGGER = ml
        elif sink in ("file-b", "file-t"):
            tmp = tempfile.NamedTemporaryFile(prefix="prog-", suffix=".log", delete=False)
            tmp.close()
            fobj = open(tmp.name, "ab") if sink == "file-b" else open(tmp.name, "a", encoding="utf-8", newline="\n")
            fresh.add(FileDestination(file=fobj))
        else:
            dests = destinations(observer) if destinations else [observer]
            if opts.get("buffer_first"):
                run.pending_destinations = dests
            else:
                fresh.add(*dests)
        if before:
            before(run, fresh, observer)

        def go():
            try:
                try:
                    interp.exec_nodes(program, Ctx())
                finally:
                    while interp.late:
                        interp.late.pop(0)()
            except HarnessError:
                raise
            except Abort:
                run.stats["aborted"] = 1
            except BaseException as e:
                if interp.raised.get(id(e)) is not e:
                    import traceback as tbm

                    frames = tbm.extract_tb(e.__traceback__)
                    if frames and (os.sep + "pbt" + os.sep) in frames[-1].filename and not getattr(e, "hostile", False):
                                raise HarnessError("harness bug: %s" % "".join(tbm.format_exception(type(e), e, e.__traceback__)))
                    run.errors.append({"call": "program", "exception": "foreign exception escaped: %r" % (e,), "where": "?"})
                else:
                    interp.stat("escaped-to-top")
            if interp.check_context and current_action() is not None:
                run.context_errors.append("current_action() is not None at the end of the program")

        # Runaway recursion inside eliot must surface quickly (as a
        # RecursionError out of an API call), not after minutes of formatting
        # thousand-frame tracebacks: give the program a bounded stack budget.
        import sys

        depth = 0
        frame = sys._getframe()
        while frame is not None:
            depth += 1
            frame = frame.f_back
        old_limit = sys.getrecursionlimit()
        sys.setrecursionlimit(min(old_limit, depth + opts.get("stack_budget", 400)))
        try:
                contextvars.copy_context().run(go)
        finally:
            sys.setrecursionlimit(old_limit)
        if getattr(run, "pending_destinations", None):
            # the program ended before the first add_destinations: hand the buffer over now
            fresh.add(*run.pending_destinations)
            run.pending_destinations = None
        if sink == "memorylogger":
            run.messages = list(run.memory_logger.messages)
        elif sink in ("file-b", "file-t"):
            fobj.close()
            with open(tmp.name, "rb") as f:
                run.raw = f.read()
            lines = run.raw.split(b"\n")
            run.trailing = lines[-1]
            run.lines = lines[:-1]
            run.messages = [json.loads(l.decode("utf-8")) for l in run.lines]
        else:
            run.messages = observer.messages
        run.observer = observer
        run.destinations = fresh
    finally:
        Logger._destinations = saved_dest
        _output._DEFAULT_LOGGER = saved_logger
        eliot_errors._error_extraction.registry.clear()
        eliot_errors._error_extraction.registry.update(saved_registry)
        if fobj is not None and not fobj.closed:
            fobj.close()
        if tmp is not None:
            try:
                os.unlink(tmp.name)
            except OSError:
                pass
    return run


# ---------------------------------------------------------- model as plain


def expected_value(v, json_mode):
    if isinstance(v, dict) and "$expected_py" in v:
        py = v["$expected_py"]
        return _py_normal(py) if json_mode else py
    return V.normal(v) if json_mode else V.decode(v)


def _py_normal(py):
    """JSON normal form of a python value built from native values."""
    return json.loads(json.dumps(py))


def model_plain(node, json_mode=True):
    if node["kind"] == "msg":
        fields = dict((k, expected_value(v, json_mode)) for k, v in node["fields"].items())
        if node.get("tb"):
            # traceback text is not compared (neither eliot's nor one an extractor supplied)
            fields.pop("traceback", None)
        return {"m": node["type"], "fields": fields, "tb": bool(node.get("tb"))}
    out = {
        "a": node["type"],
        "status": node["status"],
        "start": dict((k, expected_value(v, json_mode)) for k, v in node["start"].items()),
        "children": [model_plain(c, json_mode) for c in node["children"]],
    }
    end = dict((k, expected_value(v, json_mode)) for k, v in (node["end"] or {}).items())
    if node["status"] == "failed":
        end["exception"] = node["exception"]
        end["reason"] = node["reason"]
    out["end"] = end
    return out


def root_key(plain):
    if "a" in plain:
        return ("n", plain["start"].get("n"))
    if plain["fields"].get("n") is not None:
        return ("n", plain["fields"]["n"])
    return ("tb", plain["fields"].get("reason"))


STRUCT = ("action_type", "action_status", "message_type")


def written_plain(node):
    """Plain structure of a parsed WrittenAction / WrittenMessage, in the
    same shape as model_plain."""
    from eliot.parse import WrittenAction
    from pyrsistent import thaw

    if not isinstance(node, WrittenAction):
        c = thaw(node.contents)
        mtype = c.pop("message_type", None)
        tb = mtype == "eliot:traceback"
        if tb:
            c.pop("traceback", None)
        return {"m": mtype, "fields": c, "tb": tb}
    start = thaw(node.start_message.contents) if node.start_message else None
    end = thaw(node.end_message.contents) if node.end_message else None
    out = {"a": node.action_type, "status": node.status}
    if start is not None:
        for k in ("action_type", "action_status"):
            start.pop(k, None)
    if end is not None:
        for k in ("action_type", "action_status"):
            end.pop(k, None)
    out["start"] = start
    out["end"] = end
    out["children"] = [written_plain(c) for c in node.children]
    return out


def program_features(program):
    f = {"depth": 0, "nodes": 0, "kinds": set(), "raises": 0, "remote": 0, "typed": 0, "base_exc": 0, "try": 0}

    def walk(nodes, depth):
        for node in nodes:
            f["nodes"] += 1
            op = node["op"]
            if op == "action":
                f["kinds"].add(node["kind"])
                if node["kind"] in ("typed", "typed_task"):
                    f["typed"] += 1
                f["depth"] = max(f["depth"], depth + 1)
                walk(node["body"], depth + 1)
            elif op == "msg":
                if node["kind"] == "typed":
                    f["typed"] += 1
            elif op == "raise":
                f["raises"] += 1
                if node["exc"] % len(EXC_TABLE) in BASE_ONLY:
                    f["base_exc"] += 1
            elif op == "try":
                f["try"] += 1
                walk(node["body"], depth)
                walk(node.get("handler") or [], depth)
                walk(node.get("final") or [], depth)
            elif op == "reenter":
                f["reenter"] = f.get("reenter", 0) + 1
                walk(node["body"], depth)
            elif op == "enter":
                f["depth"] = max(f["depth"], depth + 1)
                walk(node["body"], depth + 1)
            elif op in ("remote", "preserve"):
                f["remote"] += 1
                f["depth"] = max(f["depth"], depth + 1)
                walk(node["body"], depth + 1)

    walk(program, 0)
    return f


# ---------------------------------------------------------------- strategy

TYPE_NAMES = ["app:a", "app:b", "app:c", "sys:x", "t", ""]


def programs(max_nodes=12, faults=False, remote=True, kinds=None, msg_kinds=None, raises=True, preserve=True, max_depth=5, reenter=True, names=None, values=None, remote_weight=1, min_depth=1, extras=True, tb_outside=False, status_fields=False):
    """
    Strategy for programs.  Depth is drawn first so that deep nestings are
    as likely as shallow ones; `max_nodes` bounds the body sizes.
    """
    kinds = kinds or ACTION_KINDS
    msg_kinds = msg_kinds or MSG_KINDS
    exc_idx = st.integers(0, len(EXC_TABLE) - 1)
    sers = st.lists(st.sampled_from(SER_NAMES), min_size=1, max_size=3)
    def build_msg(kind, mtype, fields, typed, status):
        if status is not None and kind != "typed":
            # an ordinary message may carry a user field of this name: only action_type marks an action message
            fields = dict(fields, action_status=status)
        return {"op": "msg", "kind": kind, "mtype": mtype, "fields": fields, "typed": typed}

    msg = st.builds(
        build_msg,
        st.sampled_from(msg_kinds),
        st.sampled_from(TYPE_NAMES),
        V.field_dicts(3, names, values),
        sers,
        st.sampled_from([None, None, None, "succeeded", "started", "failed", "queued"]) if status_fields else st.none(),
    )
    tb = exc_idx.map(lambda i: {"op": "tb", "exc": i})
    # exceptions whose class has an extractor registered out of the box (errno) are drawn more often
    rz = st.one_of(exc_idx, exc_idx, st.sampled_from([EXC_TABLE.index(OSError), EXC_TABLE.index(FileNotFoundError)])).map(lambda i: {"op": "raise", "exc": i})
    leaf_options = [msg, msg, msg, msg, msg, msg, msg, msg, tb, tb]
    if tb_outside:
        # write_traceback() although no exception is being handled (only where the forest is not compared)
        leaf_options.append(st.just({"op": "tb", "exc": 0, "outside": True}))
    if extras:
        leaf_options.append(st.integers(0, 2).map(lambda k: {"op": "reseed", "seed": k}))
        leaf_options.append(
            st.builds(lambda slot, atype, sf: {"op": "create", "slot": slot, "atype": atype, "sf": sf}, st.integers(0, 2), st.sampled_from(TYPE_NAMES), V.field_dicts(1, names, values))
        )
    leaf = st.one_of(*leaf_options)
    width = 3 if max_nodes <= 8 else 4

    def compound(body, top=False):
        action = st.builds(
            lambda kind, atype, sf, ef, body, typed, extra, ir, dt, exc, early: {
                "op": "action",
                "exc": exc,
                "early_finish": early,
                "kind": kind,
                "atype": atype,
                "sf": sf,
                "ef": ef,
                "body": body,
                "typed": typed,
                "extra_finish": extra,
                "include_result": ir,
                "default_type": dt,
            },
            st.sampled_from(kinds),
            st.sampled_from(TYPE_NAMES),
            V.field_dicts(2, names, values),
            V.field_dicts(2, names, values),
            body,
            sers,
            st.sampled_from([0, 0, 0, 1, 2]),
            st.booleans(),
            st.sampled_from([False, False, True]),
            exc_idx,
            st.sampled_from([0, 0, 0, 0, 1, 2]),
        )
        options = [action, action, action, action]
        if top:
            # at top level there is no current action: re-entering or handing
            # off is impossible, so start with an action
            return action
        if extras:
            options.append(st.builds(lambda slot, body: {"op": "enter", "slot": slot, "body": body}, st.integers(0, 2), body))
        if reenter:
            options.append(
                st.builds(
                    lambda how, up, body: {"op": "reenter", "how": how, "up": up, "body": body},
                    st.sampled_from(["context", "run"]),
                    st.sampled_from([0, 0, 1, 2, 3]),
                    body,
                )
            )
        if raises:
            small = st.lists(leaf, max_size=2) if not extras else st.lists(st.one_of(leaf, action), max_size=2)
            tbc = exc_idx.map(lambda i: {"op": "tb", "exc": i, "current": True})
            in_handler = st.lists(st.one_of(leaf, tbc, tbc), max_size=2) if not extras else st.lists(st.one_of(leaf, action, tbc, tbc), max_size=2)
            options.append(
                st.builds(
                    lambda b, h, f_: {"op": "try", "body": b, "handler": h, "final": f_},
                    body,
                    st.one_of(st.just([]), in_handler),
                    st.one_of(st.just([]), st.just([]), small),
                )
            )
        if remote:
            options.extend([
                st.builds(
                    lambda late, text, where, defer, body: {"op": "remote", "late": late, "text": text, "where": where, "defer": defer, "body": body},
                    st.sampled_from([False, False, True]),
                    st.booleans(),
                    st.sampled_from(["inline", "inline", "thread"]),
                    st.sampled_from([0, 0, 1, 2, 5]),
                    body,
                )
            ] * remote_weight)
            if preserve:
                options.append(
                    st.builds(
                        lambda where, defer, body, again: {"op": "preserve", "where": where, "defer": defer, "body": body, "call_again": again},
                        st.sampled_from(["inline", "thread"]),
                        st.sampled_from([0, 0, 1, 3]),
                        body,
                        st.booleans(),
                    )
                )
        return st.one_of(*options)

    def with_tail(items):
        if not raises:
            return items
        return st.tuples(items, st.one_of(st.none(), st.none(), st.none(), rz)).map(
            lambda p: p[0] + ([p[1]] if p[1] is not None else [])
        )

    def level(depth, top=False):
        if depth <= 0:
            return compound(with_tail(st.lists(leaf, max_size=width)), top)
        below = level(depth - 1)
        side = st.lists(st.one_of(leaf, leaf, level(0)), max_size=width - 1)
        return compound(with_tail(st.tuples(side, below, side).map(lambda p: p[0] + [p[1]] + p[2])), top)

    def program(d):
        first = level(d - 1, top=True)
        rest = st.lists(st.one_of(leaf, level(max(0, d - 2))), max_size=2)
        return st.tuples(st.lists(leaf, max_size=1), first, rest).map(lambda p: p[0] + [p[1]] + p[2])

    return st.integers(min_depth, max_depth).flatmap(program)
