"""
C02 invariants over the list of messages a destination received, stated
independently of eliot's own code (uses pbt/reftree.py only).
"""

from .core import Violation, require
from . import reftree

STATUSES = ("started", "succeeded", "failed")
REMOTE_TYPES = ("eliot:remote_task",)


def check_messages(messages, causal=True, remote_positions=None):
    """
    @param causal: also require emission order == level order inside each
        action and children nested inside their parent's lifetime (true for
        structured programs observed by one destination).
    @return: info dict.
    """
    seen = {}
    for idx, m in enumerate(messages):
        require(isinstance(m.get("task_uuid"), str), "field:task_uuid", lambda: "message %d: %r" % (idx, m.get("task_uuid")))
        lvl = m.get("task_level")
        require(
            isinstance(lvl, list) and len(lvl) >= 1 and all(isinstance(x, int) and not isinstance(x, bool) and x >= 1 for x in lvl),
            "field:task_level",
            lambda: "message %d has task_level %r" % (idx, lvl),
        )
        require(isinstance(m.get("timestamp"), float), "field:timestamp", lambda: "message %d has timestamp %r" % (idx, m.get("timestamp")))
        has_mt = "message_type" in m
        has_at = "action_type" in m
        require(has_mt != has_at, "field:type", lambda: "message %d has message_type=%r action_type=%r" % (idx, m.get("message_type"), m.get("action_type")))
        if has_at:
            require(m.get("action_status") in STATUSES, "field:action_status", lambda: "message %d: %r" % (idx, m.get("action_status")))
        key = (m["task_uuid"], tuple(lvl))
        require(key not in seen, "duplicate-level", lambda: "messages %d and %d share (task_uuid, task_level) %r" % (seen[key], idx, key))
        seen[key] = idx

    tasks = reftree.build(messages)
    info = {"actions": 0, "max_depth": 0}

    def first_index(node):
        best = None
        for m in (node.start, node.end, node.message):
            if m is not None:
                i = seen[(m["task_uuid"], tuple(m["task_level"]))]
                best = i if best is None else min(best, i)
        for c in node.children.values():
            i = first_index(c)[0]
            best = i if best is None else min(best, i)
        last = None
        for m in (node.start, node.end, node.message):
            if m is not None:
                i = seen[(m["task_uuid"], tuple(m["task_level"]))]
                last = i if last is None else max(last, i)
        for c in node.children.values():
            i = first_index(c)[1]
            last = i if last is None else max(last, i)
        return best, last

    def visit(uuid, node):
        if node.message is not None:
            return
        info["actions"] += 1
        info["max_depth"] = max(info["max_depth"], len(node.level) + 1)
        where = "%s%r" % (uuid[:8], list(node.level))
        require(node.start is not None, "no-start", lambda: "action %s has messages but no start message" % where)
        require(node.end is not None, "no-end", lambda: "action %s (%s) has no end message" % (where, node.start.get("action_type")))
        spos = node.start["task_level"][-1]
        epos = node.end["task_level"][-1]
        require(spos == 1, "start-not-first", lambda: "action %s starts at position %d" % (where, spos))
        positions = sorted([spos, epos] + list(node.children))
        require(
            positions == list(range(1, len(positions) + 1)),
            "positions-not-contiguous",
            lambda: "action %s (%s) uses positions %r" % (where, node.start.get("action_type"), positions),
        )
        require(epos == positions[-1], "end-not-last", lambda: "action %s (%s) ends at position %d but uses positions %r" % (where, node.start.get("action_type"), epos, positions))
        require(node.end.get("action_type") == node.start.get("action_type"), "type-mismatch", lambda: "action %s start/end types differ" % where)
        if causal:
            s = seen[(uuid, tuple(node.start["task_level"]))]
            e = seen[(uuid, tuple(node.end["task_level"]))]
            prev = s
            for k in sorted(node.children):
                child = node.children[k]
                fi, la = first_index(child)
                require(s < fi and la < e, "child-outside-parent", lambda: "item %d of action %s emitted at [%d..%d], parent spans [%d..%d]" % (k, where, fi, la, s, e))
                is_remote = child.message is None and (
                    (child.start or child.end or {}).get("action_type") in REMOTE_TYPES
                    or (remote_positions is not None and (uuid, tuple(child.level)) in remote_positions)
                )
                if not is_remote:
                    require(
                        fi > prev,
                        "emission-order",
                        lambda: "in action %s item %d was first emitted at index %d, before an earlier sibling (index %d)" % (where, k, fi, prev),
                    )
                    prev = fi
        for c in node.children.values():
            visit(uuid, c)

    for uuid, root in tasks.items():
        if root.message is not None:
            require(root.message["task_level"] == [1], "lonely-level", "context-less message at %r" % (root.message["task_level"],))
            require(not root.children and root.start is None and root.end is None, "lonely-mixed", "context-less message shares a uuid with an action")
        else:
            visit(uuid, root)
    info["tasks"] = len(tasks)
    return info
