"""
atheris (libFuzzer) target for C20: raw byte streams through
eliot-prettyprint's _main, judged by the same oracle as the Hypothesis facet
(`c20.check_stream`).  Run as a subprocess by the `cli-fuzz` facet:

    python -m pbt.fuzz_c20 STATS_FILE -runs=N -seed=S ... CORPUS_DIRS
"""

import hashlib
import json
import os
import sys

STATS = sys.argv.pop(1)

import atheris  # noqa: E402

with atheris.instrument_imports(include=["eliot"]):
    from pbt.core import setup_path, Violation

    setup_path()
    from pbt.props import c20

state = {"execs": 0, "judged": 0, "discarded": 0, "nontrivial": set(), "classes": {}, "samples": []}


def flush():
    with open(STATS + ".tmp", "w") as f:
        json.dump(
            {
                "execs": state["execs"],
                "judged": state["judged"],
                "discarded": state["discarded"],
                "nontrivial": sorted(state["nontrivial"])[:200000],
                "classes": state["classes"],
                "samples": state["samples"],
            },
            f,
        )
    os.replace(STATS + ".tmp", STATS)


def target(data):
    state["execs"] += 1
    try:
        info = c20.check_stream(data, compact=bool(data and data[0] & 1))
    except Violation:
        flush()
        raise
    if info is None:
        state["discarded"] += 1
    else:
        state["judged"] += 1
        key = "classes=%d" % len(info["classes"])
        state["classes"][key] = state["classes"].get(key, 0) + 1
        if len(info["classes"]) >= 3:
            h = hashlib.blake2b(data, digest_size=8).hexdigest()
            if h not in state["nontrivial"]:
                state["nontrivial"].add(h)
                if len(state["samples"]) < 5:
                    state["samples"].append(data.hex())
    if state["execs"] % 500 == 0:
        flush()


if __name__ == "__main__":
    atheris.Setup(sys.argv, target)
    atheris.Fuzz()
