"""
Value strategies and the tagged-JSON codec used by replay files.

A *spec* is pure JSON data.  `decode(spec)` builds the Python value handed to
eliot; `normal(spec)` is the independently computed value a JSON reader must
get back (the documented encoding).  Tags are dicts with the single key "$t"
plus arguments; generated dict keys never equal "$t".
"""

import datetime
import math
import pathlib

from hypothesis import strategies as st

TAG = "$t"

# Names a user cannot (or is told not to) use as field names: keyword
# parameters of the logging functions themselves and the message format's keys.
RESERVED_NAMES = frozenset(
    [
        "task_uuid",
        "task_level",
        "timestamp",
        "action_type",
        "action_status",
        "message_type",
        "exception",
        "reason",
        "logger",
        "self",
        "_serializers",
        "_class",
        "_serializer",
        "task_id",
        "cls",
        "action",
        "n",
        TAG,
    ]
)


def fix_name(s):
    if s in RESERVED_NAMES or s.startswith("_") or s == "":
        return "f" + s
    return s


def field_names():
    """Field names: short, mostly ASCII identifiers, sometimes arbitrary text."""
    return st.one_of(
        st.sampled_from(["a", "b", "c", "key", "value", "x", "result", "path", "n2", "é", "fields", "args"]),
        st.text(min_size=1, max_size=6),
    ).map(fix_name)


INT_BOUNDARIES = [
    0,
    1,
    -1,
    2**31 - 1,
    2**31,
    -(2**31),
    2**32,
    2**53,
    2**53 + 1,
    -(2**53) - 1,
    2**63 - 1,
    2**63,
    -(2**63),
    2**64 - 1,
]
FLOAT_BOUNDARIES = [0.0, -0.0, 5e-324, 2.2250738585072014e-308, 1.7976931348623157e308, -1.7976931348623157e308, 0.1, 1e16, 1e-7, 1.0, 1e22, 1e23]


def ints64():
    return st.one_of(st.integers(-(2**63), 2**64 - 1), st.sampled_from(INT_BOUNDARIES), st.integers(-1000, 1000))


def finite_floats():
    return st.one_of(st.floats(allow_nan=False, allow_infinity=False), st.sampled_from(FLOAT_BOUNDARIES))


def texts():
    return st.one_of(
        st.text(max_size=12),
        st.sampled_from(["", "\n", " x ", "\x00", "\x7f", "\U0001f600", "a\tb\\n", '"quoted"', "퟿", "line1\nline2", "\r\n"]),
        st.text(alphabet=st.characters(min_codepoint=0, max_codepoint=0x20), max_size=4),
        st.text(alphabet=st.characters(min_codepoint=0x10000, max_codepoint=0x10FFFF), max_size=3),
    )


def keys():
    return st.one_of(st.sampled_from(["k", "a", "b", "", "é", "\n"]), st.text(max_size=5)).map(
        lambda s: "$t_" if s == TAG else s
    )


def native_leaves():
    return st.one_of(st.none(), st.booleans(), ints64(), finite_floats(), texts())


def native_values(max_leaves=8):
    return st.recursive(
        native_leaves(),
        lambda ch: st.one_of(st.lists(ch, max_size=4), st.dictionaries(keys(), ch, max_size=4)),
        max_leaves=max_leaves,
    )


def small_values():
    """Cheap JSON-native values for program fields."""
    return st.one_of(
        st.integers(-5, 5),
        st.sampled_from([None, True, False, "", "v", "é\n", 1.5, -0.0, 2**63, [1, "a"], {"k": [1, {"z": None}]}, []]),
        native_values(4),
    )


def field_dicts(max_size=3, names=None, values=None):
    return st.dictionaries(
        names if names is not None else field_names(), values if values is not None else small_values(), max_size=max_size
    )


def colliding_field_names():
    """Field names incl. the three keys eliot sets itself on every message (it must win)."""
    return st.one_of(field_names(), st.sampled_from(["task_uuid", "task_level", "timestamp"]))


# --------------------------------------------------------------------------
# rich (documented) types


def tag(t, **kw):
    d = {TAG: t}
    d.update(kw)
    return d


def rich_values(native_only=False):
    """native_only: just the rich types the encoder writes without consulting any json_default."""
    dates = st.dates().map(lambda d: tag("date", v=[d.year, d.month, d.day]))
    times = st.times().map(lambda t: tag("time", v=[t.hour, t.minute, t.second, t.microsecond]))
    dts = st.datetimes().map(
        lambda d: tag("datetime", v=[d.year, d.month, d.day, d.hour, d.minute, d.second, d.microsecond])
    )
    paths = st.one_of(
        st.sampled_from(["/tmp/x", "rel/é", ".", "/"]),
        st.text(alphabet=st.characters(blacklist_categories=("Cs",), blacklist_characters="\x00"), min_size=1, max_size=8),
    ).map(lambda p: tag("path", v=p))
    sets = st.one_of(
        st.lists(st.integers(-100, 100), max_size=5, unique=True),
        st.lists(st.text(max_size=3), max_size=5, unique=True),
        # members that cannot be ordered among each other
        st.sampled_from([[1, "one"], [None, 3, 4], ["a", 2.5, None]]),
    ).map(lambda xs: tag("set", v=xs))
    cplx = st.tuples(finite_floats(), finite_floats()).map(lambda p: tag("complex", v=list(p)))
    nonfinite = st.sampled_from(["nan", "inf", "-inf"]).map(lambda s: tag("float", v=s))
    tuples = st.lists(native_leaves(), max_size=3).map(lambda xs: tag("tuple", v=xs))
    if native_only:
        return st.one_of(dates, times, dts, nonfinite, tuples)
    return st.one_of(dates, times, dts, paths, sets, cplx, nonfinite, tuples)


BIG_SIZES = [4090, 4096, 4100, 8150, 8185, 8192, 8200, 16384, 65530, 65536, 70000, 300000]


def bigtexts():
    return st.builds(
        lambda unit, n: tag("bigtext", unit=unit, n=n),
        st.sampled_from(["a", "é", "x\"", "\U0001f600", "ab\n"]),
        st.one_of(st.sampled_from(BIG_SIZES), st.integers(4000, 9000)),
    )


def chains():
    return st.builds(
        lambda depth, kind, leaf: tag("chain", depth=depth, kind=kind, leaf=leaf),
        st.integers(3, 200),
        st.sampled_from(["list", "dict", "mixed"]),
        native_leaves(),
    )


def rich_tree(max_leaves=8, custom=False, native_only=False):
    leaves = st.one_of(native_leaves(), rich_values(native_only), chains())
    if custom:
        leaves = st.one_of(leaves, native_leaves().map(lambda v: tag("custom", v=v)))
    return st.recursive(
        leaves,
        lambda ch: st.one_of(st.lists(ch, max_size=4), st.dictionaries(keys(), ch, max_size=4)),
        max_leaves=max_leaves,
    )


class Custom(object):
    """A class only the caller's json_default extension knows about."""

    def __init__(self, payload):
        self.payload = payload


def is_tag(v):
    return isinstance(v, dict) and TAG in v


def decode(v):
    if isinstance(v, list):
        return [decode(x) for x in v]
    if isinstance(v, dict):
        if TAG not in v:
            return dict((k, decode(x)) for k, x in v.items())
        t = v[TAG]
        if t == "date":
            return datetime.date(*v["v"])
        if t == "time":
            return datetime.time(*v["v"])
        if t == "awaretime":
            return datetime.time(*v["v"], tzinfo=datetime.timezone(datetime.timedelta(minutes=v.get("offset", 0))))
        if t == "datetime":
            return datetime.datetime(*v["v"])
        if t == "path":
            return pathlib.Path(v["v"])
        if t == "set":
            return set(v["v"])
        if t == "complex":
            return complex(v["v"][0], v["v"][1])
        if t == "float":
            return float(v["v"])
        if t == "tuple":
            return tuple(decode(x) for x in v["v"])
        if t == "custom":
            return Custom(decode(v["v"]))
        if t == "bytes":
            return bytes.fromhex(v["hex"])
        if t == "bigtext":
            return (v["unit"] * (v["n"] // len(v["unit"]) + 1))[: v["n"]]
        if t == "override":
            return decode(v["v"])
        if t == "chain":
            out = decode(v["leaf"])
            for i in range(v["depth"]):
                kind = v["kind"] if v["kind"] != "mixed" else ("list" if i % 2 else "dict")
                out = [out] if kind == "list" else {"d": out}
            return out
        from . import hostile

        return hostile.decode_hostile(v)
    return v


def normal(v):
    """What a JSON reader must see for decode(v), per the documented encodings."""
    if isinstance(v, list):
        return [normal(x) for x in v]
    if isinstance(v, float):
        return v if math.isfinite(v) else None
    if isinstance(v, dict):
        if TAG not in v:
            return dict((k, normal(x)) for k, x in v.items())
        t = v[TAG]
        if t == "date":
            return datetime.date(*v["v"]).isoformat()
        if t == "time":
            return datetime.time(*v["v"]).isoformat()
        if t == "awaretime":
            return decode(v).isoformat()
        if t == "datetime":
            return datetime.datetime(*v["v"]).isoformat()
        if t == "path":
            return str(pathlib.Path(v["v"]))
        if t == "set":
            return {"$multiset": sorted(repr(x) for x in v["v"])}
        if t == "complex":
            return {"real": v["v"][0], "imag": v["v"][1]}
        if t == "float":
            return None
        if t == "tuple":
            return [normal(x) for x in v["v"]]
        if t == "custom":
            return {"custom": normal(v["v"])}
        if t == "bigtext":
            return decode(v)
        if t == "chain":
            out = normal(v["leaf"])
            for i in range(v["depth"]):
                kind = v["kind"] if v["kind"] != "mixed" else ("list" if i % 2 else "dict")
                out = [out] if kind == "list" else {"d": out}
            return out
        raise ValueError("no normal form for tag %r" % (t,))
    return v


def observed_normal(obs, spec):
    """
    Bring an observed (json.loads) value into the shape `normal(spec)` uses
    where the encoding is order-free (sets), guided by the spec.
    """
    if isinstance(spec, list) and isinstance(obs, list) and len(spec) == len(obs):
        return [observed_normal(o, s) for o, s in zip(obs, spec)]
    if isinstance(spec, dict):
        if TAG not in spec:
            if isinstance(obs, dict):
                return dict((k, observed_normal(o, spec[k]) if k in spec else o) for k, o in obs.items())
            return obs
        t = spec[TAG]
        if t == "set" and isinstance(obs, list):
            return {"$multiset": sorted(repr(x) for x in obs)}
        if t == "tuple" and isinstance(obs, list) and len(obs) == len(spec["v"]):
            return [observed_normal(o, s) for o, s in zip(obs, spec["v"])]
        if t == "custom" and isinstance(obs, dict) and "custom" in obs:
            return {"custom": observed_normal(obs["custom"], spec["v"])}
        if t == "chain":
            return obs
    return obs


def features(v, depth=0, out=None):
    """Collect classification features of a spec."""
    if out is None:
        out = {"depth": 0, "nonascii": False, "control": False, "boundary": False, "rich": set(), "leaves": 0}
    out["depth"] = max(out["depth"], depth)
    if isinstance(v, list):
        for x in v:
            features(x, depth + 1, out)
    elif isinstance(v, dict):
        if TAG in v:
            out["rich"].add(v[TAG])
            if v[TAG] == "chain":
                out["depth"] = max(out["depth"], depth + v["depth"])
            if v[TAG] == "bigtext" and v["n"] >= 8192:
                out["big"] = True
        else:
            for k, x in v.items():
                features(k, depth + 1, out)
                features(x, depth + 1, out)
    elif isinstance(v, str):
        out["leaves"] += 1
        if any(ord(c) > 127 for c in v):
            out["nonascii"] = True
        if any(ord(c) < 32 or ord(c) in (0x7F, 0x2028, 0x2029) for c in v):
            out["control"] = True
    elif isinstance(v, bool) or v is None:
        out["leaves"] += 1
    elif isinstance(v, int):
        out["leaves"] += 1
        if abs(v) >= 2**53:
            out["boundary"] = True
    elif isinstance(v, float):
        out["leaves"] += 1
        if v != v or v in (float("inf"), float("-inf")) or (v == 0.0 and math.copysign(1, v) < 0) or (v != 0 and (abs(v) < 1e-300 or abs(v) > 1e300)):
            out["boundary"] = True
    return out
