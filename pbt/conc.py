"""
Structured concurrent programs for C05 (and the concurrent facets of C02/C06).

A case:
  {"mode": "thread" | "async",
   "outer": 0..2                      nesting depth of the parent action(s)
   "shared": bool                     parent creates one shared child action S
   "workers": [ {"start": "bare"|"preserve"|"continue"|"inherit",
                 "pre": bool          the worker's first action is created by the parent
                 "body": [node...]} ],
   "plans": [plan, ...]}              each plan is one schedule of the same program

node:  {"p": [...], "how": "context"|"run"}   body inside the PARENT action's context()/run()
       {"a": "with"|"finish"|"finish_inside"|"task", "body": [...]}   an action
       {"m": "log_message"|"action_log"}                                a message
       {"s": [...]}                                                     body inside `with S.context():`
       {"g": [[...], [...]], "via": "run"?}   (async only) nested gather of sub-tasks, optionally created inside R.run(...)
   "dest_yield": bool                 (threads) the destination yields to the scheduler while a message is delivered

Workers are generator-based interpreters that yield at every logging-call
boundary; threads are driven by pbt/sched.py (explicit checkpoints), asyncio
tasks by a controller coroutine resolving checkpoint futures in plan order.
"""

import asyncio
import contextvars
import threading

from .core import Violation, HarnessError, require, canon, setup_path
from . import sched

setup_path()
from eliot import Action, Logger, current_action, log_message, preserve_context, start_action, start_task  # noqa: E402
from eliot._output import Destinations  # noqa: E402


class Recorder(object):
    def __init__(self, world=None):
        self.messages = []
        self.lock = threading.Lock()
        self.world = world

    def __call__(self, m):
        with self.lock:
            self.messages.append(dict(m))
        world = self.world
        if world is not None and getattr(world, "scheduler", None) is not None:
            wid = getattr(sched._tls, "wid", None)
            if wid is not None:
                # a destination that blocks: other threads get to run while this message is being delivered
                world.dest_yields = getattr(world, "dest_yields", 0) + 1
                world.scheduler.park(wid, ("destination", 0, "deliver"))


class World(object):
    """One execution of the program under one plan."""

    def __init__(self, case):
        self.case = case
        self.n = 0
        self.lock = threading.Lock()
        self.errors = []
        self.roots = []  # model roots
        self.ids = {}
        self.parent = None
        self.ctx_switch_checks = 0

    def next_n(self, who="parent"):
        """Schedule-independent identity: per-worker counters."""
        with self.lock:
            k = self.ids.get(who, 0) + 1
            self.ids[who] = k
            return "%s#%d" % (who, k)

    def err(self, text):
        with self.lock:
            self.errors.append(text)

    def expect(self, who, want, where):
        got = current_action()
        if got is not want:
            self.err("%s %s: current_action() is %s, expected %s" % (who, where, _desc(got), _desc(want)))

    # The worker interpreter: a generator yielding at every logging call.
    def body(self, who, nodes, stack, base, parent_model, shared):
        """
        stack: list of (action, model) entered by this worker (own stack);
        base: action expected when the own stack is empty.
        """
        for node in nodes:
            cur = stack[-1][0] if stack else base
            model_children = stack[-1][1]["children"] if stack else parent_model
            if "m" in node:
                yield ("before message", cur)
                n = self.next_n(who)
                model = {"kind": "msg", "n": n, "who": who}
                if cur is None:
                    self.roots.append(model)
                else:
                    model_children.append(model)
                if node["m"] == "action_log" and cur is not None:
                    current_action().log(message_type="c05:m", n=n, who=who)
                else:
                    log_message(message_type="c05:m", n=n, who=who)
            elif "p" in node:
                # enter the context of the parent's (innermost outer) action, which the parent itself holds with `with`
                if self.parent is None:
                    continue
                p_action, p_children = self.parent
                yield ("before entering the parent action's context", cur)
                how = node.get("how", "context")
                stack.append((p_action, {"children": p_children}))
                try:
                    if how == "context":
                        cm = p_action.context()
                        cm.__enter__()
                        try:
                            for y in self.body(who, node["p"], stack, base, parent_model, shared):
                                yield y
                            yield ("before leaving the parent action's context", p_action)
                        finally:
                            cm.__exit__(None, None, None)
                    else:
                        # run(f): f cannot yield, so it only logs
                        def f():
                            self.expect(who, p_action, "inside parent.run(f)")
                            n = self.next_n(who)
                            p_children.append({"kind": "msg", "n": n, "who": who})
                            log_message(message_type="c05:m", n=n, who=who)

                        p_action.run(f)
                finally:
                    stack.pop()
                self.expect(who, cur, "after leaving the parent action's context")
            elif "s" in node:
                if shared is None:
                    continue
                s_action, s_model = shared
                yield ("before entering shared context", cur)
                cm = s_action.context()
                cm.__enter__()
                stack.append((s_action, s_model))
                try:
                    for y in self.body(who, node["s"], stack, base, parent_model, shared):
                        yield y
                    yield ("before leaving shared context", s_action)
                finally:
                    stack.pop()
                    cm.__exit__(None, None, None)
                self.expect(who, cur, "after leaving the shared action's context")
            elif "a" in node:
                kind = node["a"]
                yield ("before starting action", cur)
                pre = node.get("_pre")
                if pre is not None:
                    # created (and attached in the model) by the parent
                    action = pre
                    model = node["_pre_model"]
                    n = model["n"]
                else:
                    n = self.next_n(who)
                    model = {"kind": "action", "n": n, "who": who, "children": [], "type": "c05:" + kind}
                    if kind == "task" or cur is None:
                        self.roots.append(model)
                    else:
                        model_children.append(model)
                    if kind == "task":
                        action = start_task(action_type="c05:task", n=n, who=who)
                    else:
                        action = start_action(action_type="c05:" + kind, n=n, who=who)
                self.expect(who, cur, "after creating an action (not yet entered)")
                yield ("before entering action", cur)
                if kind in ("with", "task"):
                    action.__enter__()
                    stack.append((action, model))
                    try:
                        for y in self.body(who, node["body"], stack, base, parent_model, shared):
                            yield y
                        yield ("before leaving action", action)
                    finally:
                        stack.pop()
                        action.__exit__(None, None, None)
                else:
                    cm = action.context()
                    cm.__enter__()
                    stack.append((action, model))
                    try:
                        for y in self.body(who, node["body"], stack, base, parent_model, shared):
                            yield y
                        yield ("before leaving action", action)
                        if kind == "finish_inside":
                            action.finish()
                    finally:
                        stack.pop()
                        cm.__exit__(None, None, None)
                    if kind == "finish":
                        yield ("before finishing action", cur)
                        action.finish()
                self.expect(who, cur, "after leaving action %s" % n)
            elif "g" in node:
                # handled by the async runner (marker yielded to the driver)
                if node.get("via") == "run" and cur is not None:
                    # the sub-tasks are created inside R.run(...): they inherit R, not the action current around it
                    n = self.next_n(who)
                    model = {"kind": "action", "n": n, "who": who, "children": [], "type": "c05:runner"}
                    model_children.append(model)
                    runner = start_action(action_type="c05:runner", n=n, who=who)
                    self.expect(who, cur, "after creating an action (not yet entered)")
                    yield ("gather", cur, node["g"], model["children"], list(stack), runner)
                    self.expect(who, cur, "after the tasks created inside run() were awaited")
                    runner.finish()
                else:
                    yield ("gather", cur, node["g"], model_children, list(stack))


def _desc(a):
    if a is None:
        return None
    try:
        return "%s n=%s" % (a._identification.get("action_type"), getattr(a, "_verif_n", "?"))
    except Exception:
        return repr(a)


# ------------------------------------------------------------------ running


def run_case_once(case, plan):
    """@return (world, messages)"""
    saved = Logger._destinations
    fresh = Destinations()
    Logger._destinations = fresh
    world = World(case)
    rec = Recorder(world if case.get("dest_yield") else None)
    fresh.add(rec)
    try:
        if case["mode"] == "thread":
            contextvars.copy_context().run(_run_threads, world, case, plan)
        else:
            contextvars.copy_context().run(_run_async, world, case, plan)
    finally:
        Logger._destinations = saved
    return world, rec.messages


def _enter_outer(world, case):
    """Parent enters `outer` nested actions; returns (exit function, parent action, parent model children)."""
    stack = []
    children = None
    parent = None
    for d in range(case.get("outer", 1)):
        n = world.next_n()
        model = {"kind": "action", "n": n, "who": "parent", "children": [], "type": "c05:outer"}
        if children is None:
            world.roots.append(model)
        else:
            children.append(model)
        action = start_action(action_type="c05:outer", n=n, who="parent")
        action.__enter__()
        stack.append(action)
        children = model["children"]
        parent = action

    def leave():
        for action in reversed(stack):
            action.__exit__(None, None, None)

    return leave, parent, children


def _prepare(world, case, parent, children):
    """Parent-side preparation of shared/pre-created actions and hand-off ids."""
    shared = None
    if case.get("shared") and parent is not None:
        n = world.next_n()
        s_model = {"kind": "action", "n": n, "who": "parent", "children": [], "type": "c05:shared"}
        children.append(s_model)
        s_action = start_action(action_type="c05:shared", n=n, who="parent")
        shared = (s_action, s_model)
    return shared


def _run_threads(world, case, plan):
    leave, parent, children = _enter_outer(world, case)
    shared = _prepare(world, case, parent, children)
    world.parent = (parent, children) if parent is not None else None
    scheduler = sched.Scheduler((), plan)
    world.scheduler = scheduler
    fns = []
    for k, w in enumerate(case["workers"]):
        who = "w%d" % k
        start = w["start"]
        if parent is None and start != "bare":
            start = "bare"
        body_nodes = _precreate(world, w, parent, children, who)
        if start == "bare":
            fns.append(_thread_worker(world, scheduler, who, body_nodes, None, None, shared, bare=True))
        elif start == "preserve":
            model = {"kind": "action", "n": None, "who": None, "children": [], "type": "eliot:remote_task", "remote": True}
            children.append(model)
            inner = _thread_worker(world, scheduler, who, body_nodes, "current", model["children"], shared, bare=False)
            wrapped = preserve_context(inner)
            fns.append(wrapped)
        else:  # continue
            tid = parent.serialize_task_id()
            n = world.next_n(who)
            model = {"kind": "action", "n": n, "who": who, "children": [], "type": "eliot:remote_task", "remote": True}
            children.append(model)
            fns.append(_thread_continue(world, scheduler, who, body_nodes, tid, n, model, shared))
    scheduler.run(fns)
    for wid, e in scheduler.errors.items():
        if isinstance(e, HarnessError):
            raise e
        world.err("worker %d raised %r" % (wid, e))
    world.scheduler_switches = len(scheduler.switches)
    world.steps = scheduler.steps
    world.expect("parent", parent, "after joining the workers")
    if shared is not None:
        shared[0].finish()
    leave()
    world.expect("parent", None, "at the end")


def _precreate(world, w, parent, children, who):
    """If asked, the parent creates the worker's first action itself (hand-off of an action object)."""
    nodes = w["body"]
    if not w.get("pre") or parent is None:
        return nodes
    for i, node in enumerate(nodes):
        if "a" in node and node["a"] in ("with", "finish"):
            n = world.next_n(who)
            model = {"kind": "action", "n": n, "who": who, "children": [], "type": "c05:" + node["a"]}
            # created in the parent's context: a child of the parent action
            action = start_action(action_type="c05:" + node["a"], n=n, who=who)
            nodes = list(nodes)
            new = dict(node)
            new["_pre"] = action
            new["_pre_model"] = model
            new["_pre_parent"] = children
            nodes[i] = new
            children.append(model)
            break
    return nodes


def _drive(world, scheduler_checkpoint, who, gen):
    for y in gen:
        if y[0] == "gather":
            continue
        where, want = y[0], y[1]
        world.expect(who, want, where + " (before being parked)")
        scheduler_checkpoint()
        world.expect(who, want, where + " (after being resumed)")
        world.ctx_switch_checks += 1


def _fix_pre(nodes):
    """Pre-created actions were already attached to the parent's model; mark them so body() does not attach twice."""
    return nodes


def _thread_worker(world, scheduler, who, nodes, base_mode, model_children, shared, bare):
    def run():
        if bare:
            if current_action() is not None:
                world.err("%s: a new thread starts with current_action() %s" % (who, _desc(current_action())))
            base = None
            parent_model = None
        else:
            base = current_action()
            parent_model = model_children
        gen = world.body(who, nodes, [], base, parent_model if parent_model is not None else world.roots, shared)
        _drive(world, lambda: scheduler.park(sched._tls.wid, ("checkpoint", 0, who)), who, gen)
        world.expect(who, base, "at the end of the worker")

    return run


def _thread_continue(world, scheduler, who, nodes, tid, n, model, shared):
    def run():
        if current_action() is not None:
            world.err("%s: a new thread starts with current_action() %s" % (who, _desc(current_action())))
        with Action.continue_task(task_id=tid, n=n, who=who) as action:
            gen = world.body(who, nodes, [], action, model["children"], shared)
            _drive(world, lambda: scheduler.park(sched._tls.wid, ("checkpoint", 0, who)), who, gen)
            world.expect(who, action, "at the end of the worker")
        world.expect(who, None, "after the continued task")

    return run


# ------------------------------------------------------------------ asyncio


class AsyncController(object):
    def __init__(self, plan):
        self.plan = [list(p) for p in plan]
        self.waiting = {}  # worker index -> future
        self.active = 0
        self.steps = 0
        self.switches = 0
        self.last = None
        self.order = []
        self.top = []

    def finished(self):
        return bool(self.top) and all(t.done() for t in self.top)

    async def checkpoint(self, wid):
        loop = asyncio.get_running_loop()
        fut = loop.create_future()
        self.waiting[wid] = fut
        await fut

    async def run(self):
        seg = 0
        left = self.plan[0][0] if self.plan else 0
        idle = 0
        while not self.finished():
            await asyncio.sleep(0)
            if not self.waiting:
                idle += 1
                if idle > 10000:
                    raise HarnessError("async workers made no progress")
                continue
            if len(self.waiting) < self.active and idle < 3:
                # give running tasks the chance to reach their checkpoint
                idle += 1
                continue
            idle = 0
            runnable = sorted(self.waiting)
            choice = None
            while seg < len(self.plan):
                if left <= 0:
                    seg += 1
                    left = self.plan[seg][0] if seg < len(self.plan) else 0
                    continue
                w = runnable[self.plan[seg][1] % len(runnable)]
                choice = w
                left -= 1
                break
            if choice is None:
                choice = self.last if self.last in runnable else runnable[0]
            if self.last is not None and choice != self.last and self.last in self.waiting:
                self.switches += 1
            self.last = choice
            self.steps += 1
            fut = self.waiting.pop(choice)
            fut.set_result(None)
            # let it run to its next checkpoint
            await asyncio.sleep(0)


def _run_async(world, case, plan):
    closed_ctx = bool(case.get("closed_ctx")) and case.get("outer", 1) == 0
    leave, parent, children = _enter_outer(world, case)
    if closed_ctx:
        # the parent action is current only while the tasks are created (inside `with P.context():`); nothing is
        # open anywhere when they run, yet they inherited P
        n = world.next_n()
        model = {"kind": "action", "n": n, "who": "parent", "children": [], "type": "c05:outer"}
        world.roots.append(model)
        parent = start_action(action_type="c05:outer", n=n, who="parent")
        children = model["children"]
    if closed_ctx:
        with parent.context():
            shared = _prepare(world, case, parent, children)
    else:
        shared = _prepare(world, case, parent, children)
    world.parent = (parent, children) if parent is not None else None
    controller = AsyncController(plan)
    counter = [0]

    def spawn(who, nodes, parent_model, base):
        controller.active += 1
        return asyncio.ensure_future(worker(who, nodes, parent_model, base))

    async def worker(who, nodes, parent_model, base):
        wid = counter[0]
        counter[0] += 1
        try:
            world.expect(who, base, "at task start (inherits the creator's action)")
            gen = world.body(who, nodes, [], base, parent_model, shared)
            for y in gen:
                if y[0] == "gather":
                    _, cur, bodies, model_children, stack = y[:5]
                    runner = y[5] if len(y) > 5 else None
                    subs = []
                    for j, b in enumerate(bodies):
                        if runner is not None:
                            subs.append(runner.run(spawn, "%s.%d" % (who, j), b, model_children, runner))
                            world.expect(who, cur, "after creating a task inside run()")
                        else:
                            subs.append(spawn("%s.%d" % (who, j), b, model_children if cur is not None else world.roots, cur))
                    controller.active -= 1
                    try:
                        await asyncio.gather(*subs)
                    finally:
                        controller.active += 1
                    world.expect(who, cur, "after awaiting nested tasks")
                    continue
                where, want = y[0], y[1]
                world.expect(who, want, where + " (before await)")
                await controller.checkpoint(wid)
                world.expect(who, want, where + " (after await)")
                world.ctx_switch_checks += 1
            world.expect(who, base, "at the end of the task")
        finally:
            controller.active -= 1

    async def main():
        tasks = []
        cm = parent.context() if closed_ctx else None
        if cm is not None:
            cm.__enter__()
        try:
            for k, w in enumerate(case["workers"]):
                who = "w%d" % k
                nodes = _precreate(world, w, parent, children, who)
                tasks.append(spawn(who, nodes, children if parent is not None else world.roots, parent))
        finally:
            if cm is not None:
                cm.__exit__(None, None, None)
                world.expect("parent", None, "after leaving the block in which the tasks were created")
        controller.top = tasks
        ctl = asyncio.ensure_future(controller.run())
        try:
            await asyncio.gather(*tasks)
        finally:
            for t in tasks:
                t.cancel()
        await ctl
        world.expect("parent", None if closed_ctx else parent, "after awaiting the tasks")

    loop = asyncio.new_event_loop()
    try:
        loop.run_until_complete(main())
    finally:
        loop.close()
    world.scheduler_switches = controller.switches
    world.steps = controller.steps
    if shared is not None:
        shared[0].finish()
    if closed_ctx:
        parent.finish()
    leave()
    world.expect("parent", None, "at the end")


# ------------------------------------------------------------------ oracle


def model_shape(node):
    """Order-free shape: children as a sorted list keyed by n, with per-worker order kept."""
    if node["kind"] == "msg":
        return {"m": node["n"]}
    kids = [model_shape(c) for c in node["children"]]
    return {"a": node["n"], "type": node["type"], "kids": sorted(kids, key=canon), "order": _per_worker_order(node["children"])}


def _per_worker_order(children):
    out = {}
    for c in children:
        out.setdefault(c["who"] or "?", []).append(c["n"])
    return out


def observed_shape(messages):
    """Same shape from the observed messages via an independent reconstruction."""
    from . import reftree

    tasks = reftree.build(messages)

    def conv(node):
        if node.message is not None:
            return {"m": node.message.get("n")}, node.message.get("who"), node.message.get("n")
        start = node.start or {}
        kids = []
        order = {}
        for k in sorted(node.children):
            shape, who, n = conv(node.children[k])
            kids.append(shape)
            order.setdefault(who or "?", []).append(n)
        return {"a": start.get("n"), "type": start.get("action_type"), "kids": sorted(kids, key=canon), "order": order}, start.get("who"), start.get("n")

    return sorted((conv(r)[0] for r in tasks.values()), key=canon)


def expected_shape(world):
    return sorted((model_shape(r) for r in world.roots), key=canon)
